use ssdeep::{DualFuzzyHash, LongDualFuzzyHash, RawFuzzyHash};
fn main() {
    for n in [64usize, 65, 66, 67, 68, 100, 200] {
        let s = format!("3:{}:", "A".repeat(n));
        let raw = RawFuzzyHash::from_bytes(s.as_bytes());
        let r = std::panic::catch_unwind(|| DualFuzzyHash::from_bytes(s.as_bytes()));
        let d = match &r { Ok(Ok(h)) => format!("Ok(is_valid={})", h.is_valid()), Ok(Err(e)) => format!("Err({:?})", e), Err(_) => "PANIC".to_string() };
        let r2 = std::panic::catch_unwind(|| LongDualFuzzyHash::from_bytes(s.as_bytes()));
        let d2 = match &r2 { Ok(Ok(h)) => format!("Ok(is_valid={})", h.is_valid()), Ok(Err(e)) => format!("Err({:?})", e), Err(_) => "PANIC".to_string() };
        println!("n={} raw={:?} dual={} longdual={}", n, raw.map(|_| ()), d, d2);
    }
}
