use ssdeep::FuzzyHash;
fn main() {
    let r = std::panic::catch_unwind(|| FuzzyHash::new_from_internals(3, &[64,1,2], &[]));
    match r { Ok(h) => println!("returned is_valid={}", h.is_valid()), Err(_) => println!("panicked") }
    let r = std::panic::catch_unwind(|| FuzzyHash::new_from_internals(3, &[1,1,1,1,1], &[]));
    match r { Ok(h) => println!("returned is_valid={}", h.is_valid()), Err(_) => println!("panicked") }
}
