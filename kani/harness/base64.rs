//@inject ffuzzy/src/internals/base64.rs
// Kani harnesses on the real Base64 tables and `base64_index` (complete over the stated finite domains; loop-free).
// Cross-check of the Verus lemmas `lemma_base64_table` / `lemma_base64_rev_table` (contracts/parser.vc), which read the
// array literals directly, plus the two round-trip facts of the alphabet used by C05.
#[cfg(kani)]
mod verif_kani_base64 {
    use super::*;

    /// RFC 4648 Table 1, written independently of the crate's tables
    fn b64(i: u8) -> u8 {
        if i < 26 { b'A' + i }
        else if i < 52 { b'a' + (i - 26) }
        else if i < 62 { b'0' + (i - 52) }
        else if i == 62 { b'+' }
        else { b'/' }
    }

    /// its inverse; 0x40 outside the alphabet
    fn b64_rev(c: u8) -> u8 {
        if c >= b'A' && c <= b'Z' { c - b'A' }
        else if c >= b'a' && c <= b'z' { c - b'a' + 26 }
        else if c >= b'0' && c <= b'9' { c - b'0' + 52 }
        else if c == b'+' { 62 }
        else if c == b'/' { 63 }
        else { 0x40 }
    }

    /// BASE64_REV_TABLE_U8[c] == b64_rev(c) and base64_index(c) == b64_rev(c), all 256 bytes
    #[kani::proof]
    fn base64_rev_table_all() {
        let c: u8 = kani::any();
        assert!(BASE64_INVALID == 0x40);
        assert!(BASE64_REV_TABLE_U8[c as usize] == b64_rev(c));
        assert!(base64_index(c) == b64_rev(c));
    }

    /// BASE64_TABLE_U8[i] == b64(i), all 64 indices
    #[kani::proof]
    fn base64_table_all() {
        let i: u8 = kani::any();
        kani::assume(i < 64);
        assert!(BASE64_TABLE_U8[i as usize] == b64(i));
    }

    /// b64_rev(b64(i)) == i for i < 64; b64(b64_rev(c)) == c for every alphabet byte; on the real tables as well
    #[kani::proof]
    fn base64_roundtrip_all() {
        let i: u8 = kani::any();
        if i < 64 {
            assert!(b64_rev(b64(i)) == i);
            assert!(base64_index(BASE64_TABLE_U8[i as usize]) == i);
            assert!(b64(i) != b':' && b64(i) != b',' && b64(i) < 128);
        }
        let c: u8 = kani::any();
        if b64_rev(c) != 0x40 {
            assert!(b64_rev(c) < 64);
            assert!(b64(b64_rev(c)) == c);
            assert!(BASE64_TABLE_U8[base64_index(c) as usize] == c);
        }
    }
}
