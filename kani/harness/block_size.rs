//@inject ffuzzy/src/internals/hash/block.rs
// C20: block-size arithmetic on its entire domain (real functions; all harnesses are complete over the stated domain).
#[cfg(kani)]
mod verif_kani_block_size {
    use super::*;
    use core::cmp::Ordering;

    fn spec_valid(bs: u32) -> bool {
        let mut n = 0u32;
        let mut found = false;
        while n < 31 {
            if bs == 3u32 << n { found = true; }
            n += 1;
        }
        found
    }

    /// exactly the 31 values 3*2^n are valid — all 2^32 block sizes
    #[kani::proof]
    #[kani::unwind(33)]
    fn bs_is_valid_iff() {
        let bs: u32 = kani::any();
        assert!(block_size::is_valid(bs) == spec_valid(bs));
    }

    /// log <-> size conversions on all 256 log values
    #[kani::proof]
    fn bs_log_roundtrip() {
        let n: u8 = kani::any();
        assert!(block_size::is_log_valid(n) == (n < 31));
        assert!(block_size::NUM_VALID == 31 && block_size::MIN == 3);
        if n < 31 {
            let bs = 3u32 << n;
            assert!(block_size::from_log(n) == Some(bs));
            assert!(block_size::from_log_internal(n) == bs);
            assert!(block_size::from_log_internal_const(n) == bs);
            assert!(block_size::is_valid(bs));
            assert!(block_size::log_from_valid(bs) == n);
            assert!(block_size::log_from_valid_internal(bs) == n);
        } else {
            assert!(block_size::from_log(n).is_none());
        }
    }

    /// de Bruijn lookup: for every valid u32 block size the log is < 31 and converts back
    #[kani::proof]
    fn bs_log_from_valid_all() {
        let bs: u32 = kani::any();
        kani::assume(block_size::is_valid(bs));
        let n = block_size::log_from_valid(bs);
        assert!(n < 31);
        assert!(3u32 << n == bs);
        assert!(block_size::from_log(n) == Some(bs));
    }

    /// relation predicates = definition for all 31x31 pairs, and mutually consistent
    #[kani::proof]
    fn bs_relations() {
        let l: u8 = kani::any();
        let r: u8 = kani::any();
        kani::assume(l < 31 && r < 31);
        let eq = l == r;
        let lt = r == l + 1;     // rhs is double
        let gt = l == r + 1;     // rhs is half
        assert!(block_size::is_near_eq(l, r) == eq);
        assert!(block_size::is_near_lt(l, r) == lt);
        assert!(block_size::is_near_gt(l, r) == gt);
        assert!(block_size::is_near(l, r) == (eq || lt || gt));
        let rel = block_size::compare_sizes(l, r);
        assert!((rel == BlockSizeRelation::NearEq) == eq);
        assert!((rel == BlockSizeRelation::NearLt) == lt);
        assert!((rel == BlockSizeRelation::NearGt) == gt);
        assert!((rel == BlockSizeRelation::Far) == !(eq || lt || gt));
        assert!(rel.is_near() == block_size::is_near(l, r));
        let o = block_size::cmp(l, r);
        let bl = 3u64 << l;
        let br = 3u64 << r;
        assert!((o == Ordering::Less) == (bl < br));
        assert!((o == Ordering::Equal) == (bl == br));
        assert!((o == Ordering::Greater) == (bl > br));
    }

    /// AXIOM block_sizes_str: BLOCK_SIZES_STR[n] is the canonical decimal of 3<<n (no leading zero, <= 10 chars)
    #[kani::proof]
    #[kani::unwind(12)]
    fn axiom_block_sizes_str() {
        let n: usize = kani::any();
        kani::assume(n < 31);
        let s = block_size::BLOCK_SIZES_STR[n].as_bytes();
        assert!(s.len() >= 1 && s.len() <= 10);
        assert!(block_size::MAX_BLOCK_SIZE_LEN_IN_CHARS == 10);
        assert!(s[0] != b'0');
        let mut v: u64 = 0;
        let mut i = 0;
        while i < s.len() {
            assert!(s[i] >= b'0' && s[i] <= b'9');
            v = v * 10 + (s[i] - b'0') as u64;
            i += 1;
        }
        assert!(v == (3u64 << n));
    }

    /// block hash size constants used by every other contract
    #[kani::proof]
    fn axiom_block_hash_consts() {
        assert!(block_hash::ALPHABET_SIZE == 64 && block_hash::FULL_SIZE == 64 && block_hash::HALF_SIZE == 32);
        assert!(block_hash::MAX_SEQUENCE_SIZE == 3 && block_hash::MIN_LCS_FOR_COMPARISON == 7);
    }
}
