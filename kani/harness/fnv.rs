//@inject ffuzzy/src/internals/generate/hashes/partial_fnv.rs
// Kani harnesses on the real PartialFNVHash (complete over the stated finite domains; loop-free).
#[cfg(kani)]
mod verif_kani_fnv {
    use super::*;

    /// AXIOM fnv_table (contracts/hashes.vc): contents of the compile-time update table.
    #[kani::proof]
    fn axiom_fnv_table() {
        let s: usize = kani::any();
        let c: usize = kani::any();
        kani::assume(s < 64 && c < 64);
        assert!(PartialFNVHash::FNV_TABLE[s][c]
            == ((((s as u32).wrapping_mul(0x01000193u32)) as u8) ^ (c as u8)) % 64);
    }

    /// one step of the real code from every six-bit state on every byte equals
    /// low6(FNV-1 step) of *any* 32-bit state with those low six bits
    #[kani::proof]
    fn fnv_step_all() {
        let full: u32 = kani::any();
        let ch: u8 = kani::any();
        let mut h = PartialFNVHash((full % 64) as u8);
        h.update_by_byte(ch);
        let expect = ((full.wrapping_mul(0x01000193u32) ^ (ch as u32)) % 64) as u8;
        assert!(h.value() == expect);
    }

    #[kani::proof]
    fn fnv_init() {
        let h = PartialFNVHash::new();
        assert!(h.value() as u32 == 0x28021967u32 % 64);
    }
}
