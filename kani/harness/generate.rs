//@inject ffuzzy/src/internals/generate.rs
// Kani harnesses on the real Generator constants / size arithmetic (loop-free, complete over the stated domains).
#[cfg(kani)]
mod verif_kani_generate {
    use super::*;

    /// AXIOM max_input_size (contracts/generator.vc): value of the const-evaluated limit.
    #[kani::proof]
    fn axiom_max_input_size() {
        assert!(Generator::MAX_INPUT_SIZE == 192u64 * 1024 * 1024 * 1024);
        assert!(Generator::MAX_INPUT_SIZE == 192u64 * 1073741824);
        assert!(Generator::MIN_RECOMMENDED_INPUT_SIZE == 4097);
        assert!(Generator::guessed_preferred_max_input_size_at(0) == 192);
        assert!(block_size::NUM_VALID == 31 && block_hash::FULL_SIZE == 64 && block_hash::HALF_SIZE == 32);
    }

    /// guessed_preferred_max_input_size_at(n) == 192 * 2^n for every valid level
    #[kani::proof]
    fn preferred_max_all_levels() {
        let n: u8 = kani::any();
        kani::assume(n < 31);
        assert!(Generator::guessed_preferred_max_input_size_at(n) == 192u64 << n);
    }

    /// C13: get_log_block_size_from_input_size(size, start) == max(start, min{n : 192*2^n >= size})
    /// for EVERY u64 size and every start (the minimum is characterised without a loop:
    /// 192*2^m >= size and (m == 0 or 192*2^(m-1) < size), computed in u128).
    #[kani::proof]
    fn get_log_block_size_all() {
        let size: u64 = kani::any();
        let start: usize = kani::any();
        let m = Generator::get_log_block_size_from_input_size(size, 0);
        assert!(m <= 57);
        assert!((192u128 << m) >= size as u128);
        assert!(m == 0 || (192u128 << (m - 1)) < size as u128);
        let r = Generator::get_log_block_size_from_input_size(size, start);
        assert!(r == if start >= m { start } else { m });
        // inside the supported range the level is a valid one
        if size <= Generator::MAX_INPUT_SIZE {
            assert!(m <= 30);
        }
    }
}
