//@inject ffuzzy/src/internals/hash.rs
// Kani harnesses on FuzzyHashData constants.
#[cfg(kani)]
mod verif_kani_hashdata {
    use super::*;

    /// AXIOM max_len_in_str (contracts/hashdata.vc)
    #[kani::proof]
    fn axiom_max_len_in_str() {
        assert!(FuzzyHash::MAX_LEN_IN_STR == 10 + 64 + 32 + 2);
        assert!(RawFuzzyHash::MAX_LEN_IN_STR == 10 + 64 + 32 + 2);
        assert!(LongFuzzyHash::MAX_LEN_IN_STR == 10 + 64 + 64 + 2);
        assert!(LongRawFuzzyHash::MAX_LEN_IN_STR == 10 + 64 + 64 + 2);
        assert!(crate::MAX_LEN_IN_STR == LongRawFuzzyHash::MAX_LEN_IN_STR);
    }
}
