//@inject ffuzzy/src/internals/hash.rs
// C16: Eq / Ord consistency and the documented order, on fully symbolic VALID objects (validity assumed through the real
// is_valid(), which unit hashdata proves equivalent to the validity predicate).  cmp/eq only read fixed-capacity arrays.
#[cfg(kani)]
mod verif_kani_ordering {
    use super::*;
    use core::cmp::Ordering;

    fn any_valid<const S1: usize, const S2: usize, const NORM: bool>() -> FuzzyHashData<S1, S2, NORM>
    where
        BlockHashSize<S1>: ConstrainedBlockHashSize,
        BlockHashSize<S2>: ConstrainedBlockHashSize,
        BlockHashSizes<S1, S2>: ConstrainedBlockHashSizes,
    {
        let h = FuzzyHashData::<S1, S2, NORM> {
            blockhash1: kani::any(),
            blockhash2: kani::any(),
            len_blockhash1: kani::any(),
            len_blockhash2: kani::any(),
            log_blocksize: kani::any(),
        };
        // the validity predicate (unit hashdata proves is_valid() equivalent to it), written with concrete indices
        kani::assume(h.log_blocksize < 31);
        kani::assume(h.len_blockhash1 as usize <= S1 && h.len_blockhash2 as usize <= S2);
        let mut i = 0;
        while i < S1 {
            if i < h.len_blockhash1 as usize { kani::assume(h.blockhash1[i] < 64); } else { kani::assume(h.blockhash1[i] == 0); }
            if NORM && i >= 3 && i < h.len_blockhash1 as usize {
                kani::assume(!(h.blockhash1[i] == h.blockhash1[i - 1] && h.blockhash1[i - 1] == h.blockhash1[i - 2] && h.blockhash1[i - 2] == h.blockhash1[i - 3]));
            }
            i += 1;
        }
        let mut i = 0;
        while i < S2 {
            if i < h.len_blockhash2 as usize { kani::assume(h.blockhash2[i] < 64); } else { kani::assume(h.blockhash2[i] == 0); }
            if NORM && i >= 3 && i < h.len_blockhash2 as usize {
                kani::assume(!(h.blockhash2[i] == h.blockhash2[i - 1] && h.blockhash2[i - 1] == h.blockhash2[i - 2] && h.blockhash2[i - 2] == h.blockhash2[i - 3]));
            }
            i += 1;
        }
        h
    }

    /// reference: lexicographic order of the symbol strings, a proper prefix first
    fn lex(a: &[u8], la: usize, b: &[u8], lb: usize) -> Ordering {
        let mut i = 0;
        while i < 64 {
            if i >= la && i >= lb { return Ordering::Equal; }
            if i >= la { return Ordering::Less; }
            if i >= lb { return Ordering::Greater; }
            if a[i] < b[i] { return Ordering::Less; }
            if a[i] > b[i] { return Ordering::Greater; }
            i += 1;
        }
        Ordering::Equal
    }

    fn reference<const S1: usize, const S2: usize, const NORM: bool>(a: &FuzzyHashData<S1, S2, NORM>, b: &FuzzyHashData<S1, S2, NORM>) -> Ordering
    where
        BlockHashSize<S1>: ConstrainedBlockHashSize,
        BlockHashSize<S2>: ConstrainedBlockHashSize,
        BlockHashSizes<S1, S2>: ConstrainedBlockHashSizes,
    {
        if a.log_blocksize < b.log_blocksize { return Ordering::Less; }
        if a.log_blocksize > b.log_blocksize { return Ordering::Greater; }
        let o1 = lex(&a.blockhash1, a.len_blockhash1 as usize, &b.blockhash1, b.len_blockhash1 as usize);
        if o1 != Ordering::Equal { return o1; }
        lex(&a.blockhash2, a.len_blockhash2 as usize, &b.blockhash2, b.len_blockhash2 as usize)
    }

    fn check_pair<const S1: usize, const S2: usize, const NORM: bool>()
    where
        BlockHashSize<S1>: ConstrainedBlockHashSize,
        BlockHashSize<S2>: ConstrainedBlockHashSize,
        BlockHashSizes<S1, S2>: ConstrainedBlockHashSizes,
    {
        let a = any_valid::<S1, S2, NORM>();
        let b = any_valid::<S1, S2, NORM>();
        let o = a.cmp(&b);
        // Eq <=> Ordering::Equal <=> same text (same block size and symbol strings)
        assert!((a == b) == (o == Ordering::Equal));
        assert!((o == Ordering::Equal) == (reference(&a, &b) == Ordering::Equal));
        // the documented order
        assert!(o == reference(&a, &b));
        // antisymmetry / totality
        assert!(b.cmp(&a) == o.reverse());
        assert!(a.partial_cmp(&b) == Some(o));
        // equal objects are structurally equal (zero tails): needed for Hash consistency of whole-array writers
        if a == b { assert!(a.full_eq(&b)); }
    }

    #[kani::proof] #[kani::unwind(66)] fn ord_pair_raw_short() { check_pair::<64, 32, false>() }
    #[kani::proof] #[kani::unwind(66)] fn ord_pair_norm_short() { check_pair::<64, 32, true>() }
    #[kani::proof] #[kani::unwind(66)] fn ord_pair_raw_long() { check_pair::<64, 64, false>() }
    #[kani::proof] #[kani::unwind(66)] fn ord_pair_norm_long() { check_pair::<64, 64, true>() }

    fn check_triple<const S1: usize, const S2: usize, const NORM: bool>()
    where
        BlockHashSize<S1>: ConstrainedBlockHashSize,
        BlockHashSize<S2>: ConstrainedBlockHashSize,
        BlockHashSizes<S1, S2>: ConstrainedBlockHashSizes,
    {
        let a = any_valid::<S1, S2, NORM>();
        let b = any_valid::<S1, S2, NORM>();
        let c = any_valid::<S1, S2, NORM>();
        if a.cmp(&b) != Ordering::Greater && b.cmp(&c) != Ordering::Greater {
            assert!(a.cmp(&c) != Ordering::Greater);
        }
        if a == b && b == c { assert!(a == c); }
    }
    #[kani::proof] #[kani::unwind(66)] fn ord_triple_raw_short() { check_triple::<64, 32, false>() }
    #[kani::proof] #[kani::unwind(66)] fn ord_triple_norm_long() { check_triple::<64, 64, true>() }
}
