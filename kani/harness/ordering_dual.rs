//@inject ffuzzy/src/internals/hash_dual.rs
// C16 (dual part): ordering / equality of dual hashes = lexicographic (normalized part, RLE block 1, RLE block 2).
#[cfg(kani)]
mod verif_kani_ordering_dual {
    use super::*;
    use core::cmp::Ordering;

    fn any_dual<const S1: usize, const S2: usize, const C1: usize, const C2: usize>() -> FuzzyHashDualData<S1, S2, C1, C2>
    where
        BlockHashSize<S1>: ConstrainedBlockHashSize,
        BlockHashSize<S2>: ConstrainedBlockHashSize,
        BlockHashSizes<S1, S2>: ConstrainedBlockHashSizes,
        ReconstructionBlockSize<S1, C1>: ConstrainedReconstructionBlockSize,
        ReconstructionBlockSize<S2, C2>: ConstrainedReconstructionBlockSize,
    {
        let mut n = FuzzyHashData::<S1, S2, true>::new();
        n.blockhash1 = kani::any();
        n.blockhash2 = kani::any();
        n.len_blockhash1 = kani::any();
        n.len_blockhash2 = kani::any();
        n.log_blocksize = kani::any();
        kani::assume(n.log_blocksize < 31);
        kani::assume(n.len_blockhash1 as usize <= S1 && n.len_blockhash2 as usize <= S2);
        let mut i = 0;
        while i < S1 {
            if i < n.len_blockhash1 as usize { kani::assume(n.blockhash1[i] < 64); } else { kani::assume(n.blockhash1[i] == 0); }
            i += 1;
        }
        let mut i = 0;
        while i < S2 {
            if i < n.len_blockhash2 as usize { kani::assume(n.blockhash2[i] < 64); } else { kani::assume(n.blockhash2[i] == 0); }
            i += 1;
        }
        FuzzyHashDualData { rle_block1: kani::any(), rle_block2: kani::any(), norm_hash: n }
    }

    fn check<const S1: usize, const S2: usize, const C1: usize, const C2: usize>()
    where
        BlockHashSize<S1>: ConstrainedBlockHashSize,
        BlockHashSize<S2>: ConstrainedBlockHashSize,
        BlockHashSizes<S1, S2>: ConstrainedBlockHashSizes,
        ReconstructionBlockSize<S1, C1>: ConstrainedReconstructionBlockSize,
        ReconstructionBlockSize<S2, C2>: ConstrainedReconstructionBlockSize,
    {
        let a = any_dual::<S1, S2, C1, C2>();
        let b = any_dual::<S1, S2, C1, C2>();
        let o = a.cmp(&b);
        let on = a.norm_hash.cmp(&b.norm_hash);
        // different normalized parts order exactly as those parts do
        if on != Ordering::Equal { assert!(o == on); }
        // same normalized part: still a deterministic total order on the RLE data
        if on == Ordering::Equal {
            let o1 = a.rle_block1.cmp(&b.rle_block1);
            let expect = if o1 != Ordering::Equal { o1 } else { a.rle_block2.cmp(&b.rle_block2) };
            assert!(o == expect);
        }
        assert!((a == b) == (o == Ordering::Equal));
        assert!(b.cmp(&a) == o.reverse());
        assert!(a.partial_cmp(&b) == Some(o));
        // equality is exactly: equal normalized parts and equal RLE blocks (memory equality of the canonical encoding)
        assert!((a == b) == (a.norm_hash == b.norm_hash && a.rle_block1 == b.rle_block1 && a.rle_block2 == b.rle_block2));
    }

    #[kani::proof] #[kani::unwind(66)] fn ord_dual_short() { check::<64, 32, 16, 8>() }
    #[kani::proof] #[kani::unwind(66)] fn ord_dual_long() { check::<64, 64, 16, 16>() }
}
