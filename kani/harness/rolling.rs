//@inject ffuzzy/src/internals/generate/hashes/rolling_hash.rs
// Kani harness on the real RollingHash: one step from an arbitrary state satisfying the representation invariant.
#[cfg(kani)]
mod verif_kani_rolling {
    use super::*;

    fn view(h: &RollingHash) -> [u8; 7] {
        let mut w = [0u8; 7];
        let mut i = 0;
        while i < 7 {
            w[i] = h.window[(h.index as usize + i) % 7];
            i += 1;
        }
        w
    }
    fn sum7(w: &[u8; 7]) -> u32 {
        let mut s = 0u32;
        let mut i = 0;
        while i < 7 { s += w[i] as u32; i += 1; }
        s
    }
    fn wsum7(w: &[u8; 7]) -> u32 {
        let mut s = 0u32;
        let mut i = 0;
        while i < 7 { s += (i as u32 + 1) * w[i] as u32; i += 1; }
        s
    }
    fn fold7(w: &[u8; 7]) -> u32 {
        let mut h = 0u32;
        let mut i = 0;
        while i < 7 { h = (h << 5) ^ (w[i] as u32); i += 1; }
        h
    }

    // NOTE: a one-step harness from an arbitrary invariant-satisfying state (all 2^56 windows) was tried and does
    // not terminate in CBMC (adder-chain equivalence: > 20 min with a symbolic index, > 2 min per concrete index).
    // The step is proved by Verus (contracts/hashes.vc); Kani keeps only the initial state here.
    #[kani::proof]
    #[kani::unwind(9)]
    fn rolling_new() {
        let h = RollingHash::new();
        assert!(h.index == 0 && h.h1 == 0 && h.h2 == 0 && h.h3 == 0 && view(&h) == [0u8; 7] && h.value() == 0);
    }
}
