//@inject ffuzzy/src/internals/compare.rs
//@attr ffuzzy/src/internals/compare.rs fn raw_score_by_edit_distance_internal: #[cfg_attr(kani, kani::requires(len_block_hash_lhs >= 7 && len_block_hash_lhs <= 64 && len_block_hash_rhs >= 7 && len_block_hash_rhs <= 64 && edit_distance <= len_block_hash_lhs as u32 + len_block_hash_rhs as u32 - 14))]
//@attr ffuzzy/src/internals/compare.rs fn raw_score_by_edit_distance_internal: #[cfg_attr(kani, kani::ensures(|r: &u32| *r >= 1 && *r <= 100 && *r as u64 == 100 - (100 * ((64 * edit_distance as u64) / (len_block_hash_lhs as u64 + len_block_hash_rhs as u64))) / 64))]
//@attr ffuzzy/src/internals/compare.rs fn score_cap_on_block_hash_comparison_internal: #[cfg_attr(kani, kani::requires(log_block_size < 4))]
//@attr ffuzzy/src/internals/compare.rs fn score_cap_on_block_hash_comparison_internal: #[cfg_attr(kani, kani::ensures(|r: &u32| *r as u64 == (1u64 << log_block_size) * (if len_block_hash_lhs < len_block_hash_rhs { len_block_hash_lhs } else { len_block_hash_rhs }) as u64))]
// C20: score arithmetic on its entire domain.  The two `_internal` functions carry Kani function contracts
// (attributes injected above the real definitions; bodies untouched) proved by proof_for_contract.
#[cfg(kani)]
mod verif_kani_score {
    use super::*;

    #[kani::proof_for_contract(FuzzyHashCompareTarget::raw_score_by_edit_distance_internal)]
    fn score_raw_contract() {
        let l1: u8 = kani::any();
        let l2: u8 = kani::any();
        let d: u32 = kani::any();
        FuzzyHashCompareTarget::raw_score_by_edit_distance_internal(l1, l2, d);
    }

    #[kani::proof_for_contract(FuzzyHashCompareTarget::score_cap_on_block_hash_comparison_internal)]
    fn score_cap_contract() {
        let n: u8 = kani::any();
        let l1: u8 = kani::any();
        let l2: u8 = kani::any();
        FuzzyHashCompareTarget::score_cap_on_block_hash_comparison_internal(n, l1, l2);
    }

    /// public wrappers: same value as the formula in their domain, cap >= 100 at and above the border
    #[kani::proof]
    fn score_public_wrappers() {
        assert!(FuzzyHashCompareTarget::LOG_BLOCK_SIZE_CAPPING_BORDER == 4);
        let n: u8 = kani::any();
        let l1: u8 = kani::any();
        let l2: u8 = kani::any();
        kani::assume(n <= 31 && l1 <= 64 && l2 <= 64);
        let cap = FuzzyHashCompareTarget::score_cap_on_block_hash_comparison(n, l1, l2);
        let m = if l1 < l2 { l1 } else { l2 } as u64;
        if n < 4 {
            assert!(cap as u64 == (1u64 << n) * m);
        } else {
            assert!(cap >= 100);
            // above the border the uncapped value 2^n*min(l1,l2) is >= 100 whenever both lengths are >= 7
            if l1 >= 7 && l2 >= 7 { assert!((1u64 << n) * m >= 100); }
        }
        // just below the border a cap below 100 is possible (so the border is tight)
        if n == 3 && l1 == 7 && l2 == 7 { assert!(cap == 56); }
        let d: u32 = kani::any();
        kani::assume(l1 >= 7 && l2 >= 7 && d <= l1 as u32 + l2 as u32 - 14);
        let s = FuzzyHashCompareTarget::raw_score_by_edit_distance(l1, l2, d);
        assert!(s >= 1 && s <= 100);
        assert!(s as u64 == 100 - (100 * ((64 * d as u64) / (l1 as u64 + l2 as u64))) / 64);
    }
}
