//@inject ffuzzy/src/internals/utils.rs
// Cross-checks of the ASSUMED std contracts used by the Verus units (contracts/spec_std.vc, spec_lcs.vc) against the real
// std code as compiled by Kani.  count_zeros: complete over all u64.  fill / clone_from_slice: arrays of length 8 with
// symbolic bounds (BOUNDED: the std implementations are length-generic; this is a sanity check of the assumed contract).
#[cfg(kani)]
mod verif_kani_std_specs {
    /// u64::count_zeros(v) == number of clear bits among the 64 (the recursive spec zeros_upto(v, 64))
    #[kani::proof]
    #[kani::unwind(66)]
    fn std_count_zeros_spec() {
        let v: u64 = kani::any();
        let mut n = 0u32;
        let mut i = 0;
        while i < 64 {
            if (v >> i) & 1 == 0 { n += 1; }
            i += 1;
        }
        assert!(v.count_zeros() == n);
    }

    /// <[T]>::fill: every element of the sub-slice becomes the value, nothing outside changes
    #[kani::proof]
    #[kani::unwind(10)]
    fn std_fill_spec_len8() {
        let mut a: [u8; 8] = kani::any();
        let old = a;
        let lo: usize = kani::any();
        let hi: usize = kani::any();
        let v: u8 = kani::any();
        kani::assume(lo <= hi && hi <= 8);
        a[lo..hi].fill(v);
        let mut i = 0;
        while i < 8 {
            if lo <= i && i < hi { assert!(a[i] == v); } else { assert!(a[i] == old[i]); }
            i += 1;
        }
    }

    /// <[T]>::clone_from_slice with equal lengths copies element-wise
    #[kani::proof]
    #[kani::unwind(10)]
    fn std_clone_from_slice_spec_len8() {
        let mut a: [u8; 8] = kani::any();
        let old = a;
        let b: [u8; 8] = kani::any();
        let n: usize = kani::any();
        let off: usize = kani::any();
        kani::assume(n <= 8 && off <= 8 - n);
        a[off..off + n].clone_from_slice(&b[..n]);
        let mut i = 0;
        while i < 8 {
            if off <= i && i < off + n { assert!(a[i] == b[i - off]); } else { assert!(a[i] == old[i]); }
            i += 1;
        }
    }
    /// the same three contracts at the largest sizes the crate ever uses them with (block-hash arrays of 64 bytes, the
    /// position array of 64 u64): every call site of the crate operates on (sub-slices of) arrays of at most 64 elements
    #[kani::proof]
    #[kani::unwind(66)]
    fn std_fill_spec_u8_64() {
        let mut a: [u8; 64] = kani::any();
        let old = a;
        let lo: usize = kani::any();
        let hi: usize = kani::any();
        let v: u8 = kani::any();
        kani::assume(lo <= hi && hi <= 64);
        a[lo..hi].fill(v);
        let mut i = 0;
        while i < 64 {
            if lo <= i && i < hi { assert!(a[i] == v); } else { assert!(a[i] == old[i]); }
            i += 1;
        }
    }

    #[kani::proof]
    #[kani::unwind(66)]
    fn std_fill_spec_u64_64() {
        let mut a: [u64; 64] = kani::any();
        let v: u64 = kani::any();
        a.fill(v);
        let mut i = 0;
        while i < 64 {
            assert!(a[i] == v);
            i += 1;
        }
    }

    #[kani::proof]
    #[kani::unwind(66)]
    fn std_clone_from_slice_spec_64() {
        let mut a: [u8; 64] = kani::any();
        let old = a;
        let b: [u8; 64] = kani::any();
        let n: usize = kani::any();
        let off: usize = kani::any();
        let src: usize = kani::any();
        kani::assume(n <= 64 && off <= 64 - n && src <= 64 - n);
        a[off..off + n].clone_from_slice(&b[src..src + n]);
        let mut i = 0;
        while i < 64 {
            if off <= i && i < off + n { assert!(a[i] == b[i - off + src]); } else { assert!(a[i] == old[i]); }
            i += 1;
        }
    }
}
