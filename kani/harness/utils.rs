//@inject ffuzzy/src/internals/utils.rs
// Kani harnesses on the real bit utilities (loop-free, complete over u64 / 0..=64).
#[cfg(kani)]
mod verif_kani_utils {
    use super::*;

    /// the assumed contract of u64::ilog2 used by contracts/generator.vc, on the real wrapper: all non-zero u64
    #[kani::proof]
    fn utils_u64_ilog2() {
        let v: u64 = kani::any();
        kani::assume(v > 0);
        let r = u64_ilog2(v);
        assert!(r < 64);
        assert!((1u128 << r) <= v as u128);
        assert!((v as u128) < (1u128 << (r + 1)));
    }

    /// u64_lsb_ones(n) == 2^n - 1 for every n in 0..=64
    #[kani::proof]
    fn utils_u64_lsb_ones() {
        let n: u32 = kani::any();
        kani::assume(n <= 64);
        let r = u64_lsb_ones(n);
        assert!(r as u128 == (1u128 << n) - 1);
    }
}
