//@inject ffuzzy/src/internals/hash.rs
// C10 (window part): numeric / index windows of a fully symbolic valid normalized hash.
#[cfg(kani)]
mod verif_kani_windows {
    use super::*;

    fn any_valid_norm<const S1: usize, const S2: usize>() -> FuzzyHashData<S1, S2, true>
    where
        BlockHashSize<S1>: ConstrainedBlockHashSize,
        BlockHashSize<S2>: ConstrainedBlockHashSize,
        BlockHashSizes<S1, S2>: ConstrainedBlockHashSizes,
    {
        let h = FuzzyHashData::<S1, S2, true> {
            blockhash1: kani::any(),
            blockhash2: kani::any(),
            len_blockhash1: kani::any(),
            len_blockhash2: kani::any(),
            log_blocksize: kani::any(),
        };
        kani::assume(h.log_blocksize < 31);
        kani::assume(h.len_blockhash1 as usize <= S1 && h.len_blockhash2 as usize <= S2);
        let mut i = 0;
        while i < S1 {
            if i < h.len_blockhash1 as usize { kani::assume(h.blockhash1[i] < 64); } else { kani::assume(h.blockhash1[i] == 0); }
            i += 1;
        }
        let mut i = 0;
        while i < S2 {
            if i < h.len_blockhash2 as usize { kani::assume(h.blockhash2[i] < 64); } else { kani::assume(h.blockhash2[i] == 0); }
            i += 1;
        }
        h
    }

    /// base-64 encoding of the 7-symbol slice starting at k
    fn enc(bh: &[u8], k: usize) -> u64 {
        let mut v = 0u64;
        let mut i = 0;
        while i < 7 { v = (v << 6) | bh[k + i] as u64; i += 1; }
        v
    }

    /// k-th item of each iterator == encoding of slice k (| effective log << 42 for index windows); count == max(0, len-6)
    #[kani::proof]
    #[kani::unwind(66)]
    fn windows_items_short() {
        let h = any_valid_norm::<64, 32>();
        let k: usize = kani::any();
        // block hash 1
        let l1 = h.len_blockhash1 as usize;
        let n1 = if l1 >= 7 { l1 - 6 } else { 0 };
        let it = h.block_hash_1_numeric_windows();
        assert!(it.len() == n1);
        let it2 = h.block_hash_1_index_windows();
        assert!(it2.len() == n1);
        if k < n1 {
            let v = h.block_hash_1_numeric_windows().nth(k);
            assert!(v == Some(enc(&h.blockhash1, k)));
            let w = h.block_hash_1_index_windows().nth(k);
            assert!(w == Some(enc(&h.blockhash1, k) | ((h.log_blocksize as u64) << 42)));
        } else {
            assert!(h.block_hash_1_numeric_windows().nth(k).is_none());
            assert!(h.block_hash_1_index_windows().nth(k).is_none());
        }
        // block hash 2: effective block size index is log + 1 (31 representable in 5 bits)
        let l2 = h.len_blockhash2 as usize;
        let n2 = if l2 >= 7 { l2 - 6 } else { 0 };
        assert!(h.block_hash_2_numeric_windows().len() == n2);
        assert!(h.block_hash_2_index_windows().len() == n2);
        if k < n2 {
            assert!(h.block_hash_2_numeric_windows().nth(k) == Some(enc(&h.blockhash2, k)));
            assert!(h.block_hash_2_index_windows().nth(k) == Some(enc(&h.blockhash2, k) | (((h.log_blocksize + 1) as u64) << 42)));
        } else {
            assert!(h.block_hash_2_numeric_windows().nth(k).is_none());
        }
    }

    /// the encoding is injective on 7-tuples of 6-bit symbols x 5-bit log: decoding recovers every component
    #[kani::proof]
    fn windows_encoding_injective() {
        let s: [u8; 7] = kani::any();
        let log: u8 = kani::any();
        kani::assume(log <= 31);
        let mut i = 0;
        while i < 7 { kani::assume(s[i] < 64); i += 1; }
        let v = enc(&s, 0) | ((log as u64) << 42);
        assert!(v < (1u64 << 47));
        assert!((v >> 42) as u8 == log);
        let mut i = 0;
        while i < 7 {
            assert!(((v >> (6 * (6 - i))) & 63) as u8 == s[i]);
            i += 1;
        }
        assert!(block::block_hash::NumericWindows::BITS == 42 && block::block_hash::IndexWindows::BITS == 47);
    }

    /// the four window methods: first item of each == encoding of the first 7 symbols, index windows tagged with the
    /// EFFECTIVE block size index (log for block hash 1, log + 1 for block hash 2 — 31 at the largest block size)
    #[kani::proof]
    #[kani::unwind(66)]
    fn windows_methods_first_item() {
        let h = any_valid_norm::<64, 32>();
        let l1 = h.len_blockhash1 as usize;
        let l2 = h.len_blockhash2 as usize;
        let a = h.block_hash_1_numeric_windows().next();
        let b = h.block_hash_1_index_windows().next();
        let c = h.block_hash_2_numeric_windows().next();
        let d = h.block_hash_2_index_windows().next();
        if l1 >= 7 {
            assert!(a == Some(enc(&h.blockhash1, 0)));
            assert!(b == Some(enc(&h.blockhash1, 0) | ((h.log_blocksize as u64) << 42)));
        } else {
            assert!(a.is_none() && b.is_none());
        }
        if l2 >= 7 {
            assert!(c == Some(enc(&h.blockhash2, 0)));
            assert!(d == Some(enc(&h.blockhash2, 0) | ((h.log_blocksize as u64 + 1) << 42)));
        } else {
            assert!(c.is_none() && d.is_none());
        }
        assert!(h.block_hash_1_numeric_windows().len() == if l1 >= 7 { l1 - 6 } else { 0 });
        assert!(h.block_hash_2_index_windows().len() == if l2 >= 7 { l2 - 6 } else { 0 });
    }
}
