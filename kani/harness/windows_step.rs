//@inject_in ffuzzy/src/internals/hash/block.rs mod block_hash
// C10 (window part, contract style): NumericWindows/IndexWindows — `new` and ONE `next()` step from an ARBITRARY iterator
// state.  With the representation invariant "hash == base-64 value of the 6 symbols preceding v" the k-th item is, by
// induction over these two contracts, the encoding of symbols k..k+6.  Loop-free apart from fixed 6/7-trip helpers.
#[cfg(kani)]
mod verif_kani_windows_step {
    use super::*;

    fn enc_n(bh: &[u8], k: usize, n: usize) -> u64 {
        let mut v = 0u64;
        let mut i = 0;
        while i < n { v = (v << 6) | bh[k + i] as u64; i += 1; }
        v
    }

    /// new(): empty iterator below 7 symbols; otherwise hash == value of the first 6 symbols, remaining slice = bh[6..]
    #[kani::proof]
    #[kani::unwind(9)]
    fn windows_new_contract() {
        let bh: [u8; 64] = kani::any();
        let len: usize = kani::any();
        kani::assume(len <= 64);
        let mut i = 0;
        while i < 8 { kani::assume(bh[i] < 64); i += 1; }   // only the first symbols matter to new()
        let it = NumericWindows::new(&bh[..len]);
        if len < 7 {
            assert!(it.v.len() == 0 && it.len() == 0);
        } else {
            assert!(it.v.len() == len - 6 && it.len() == len - 6);
            assert!(it.hash == enc_n(&bh, 0, 6));
            assert!(it.v.as_ptr() == bh[6..].as_ptr());
        }
        let log: u8 = kani::any();
        let it2 = IndexWindows::new(&bh[..len], log);
        assert!(it2.log_block_size == log && it2.inner.v.len() == it.v.len() && it2.inner.hash == it.hash);
    }

    /// next(): from any state whose hash holds 6 six-bit symbols, yields (those 6 symbols ++ v[0]) and advances by one
    #[kani::proof]
    #[kani::unwind(9)]
    fn windows_next_contract() {
        let prev: [u8; 6] = kani::any();
        let rest: [u8; 4] = kani::any();
        let rl: usize = kani::any();
        kani::assume(rl <= 4);
        let mut i = 0;
        while i < 6 { kani::assume(prev[i] < 64); i += 1; }
        let mut i = 0;
        while i < 4 { kani::assume(rest[i] < 64); i += 1; }
        let stale: u64 = kani::any();   // bits above the 36 used ones may hold anything older: they must be masked off
        let h0 = enc_n(&prev, 0, 6) | (stale << 36);
        let mut it = NumericWindows { v: &rest[..rl], hash: h0 & NumericWindows::MASK };
        let r = it.next();
        if rl == 0 {
            assert!(r.is_none());
        } else {
            let expect = ((enc_n(&prev, 0, 6) << 6) | rest[0] as u64) & NumericWindows::MASK;
            assert!(r == Some(expect));
            assert!(expect == (enc_n(&prev, 1, 5) << 6 | rest[0] as u64) | ((prev[0] as u64) << 36) & NumericWindows::MASK);
            assert!(it.hash == expect && it.v.len() == rl - 1);
            // the new state again holds the last 6 symbols in its low 36 bits (invariant re-established)
            assert!(it.hash & ((1u64 << 36) - 1) == (enc_n(&prev, 1, 5) << 6 | rest[0] as u64));
        }
        let log: u8 = kani::any();
        kani::assume(log <= 31);
        let mut it2 = IndexWindows { inner: NumericWindows { v: &rest[..rl], hash: h0 & NumericWindows::MASK }, log_block_size: log };
        let r2 = it2.next();
        assert!(r2 == r.map(|x| x | ((log as u64) << 42)));
    }

    /// AXIOM windows_mask (contracts/windows.vc): value of the const-evaluated NumericWindows::MASK (its initialiser calls
    /// wrapping_sub, which Verus cannot evaluate in a const) and of the constants it is built from.
    #[kani::proof]
    fn axiom_windows_mask() {
        assert!(NumericWindows::ILOG2_OF_ALPHABETS == 6 && NumericWindows::BITS == 42);
        assert!(NumericWindows::MASK == 0x3ff_ffff_ffff);
    }
}
