#!/usr/bin/env python3
"""Automatic mutation campaign (dev tool of the main session; not part of /verif).
For each sampled syntactic mutant of non-test library code: does the pinned test suite still pass?  If so, do the /verif checks
of the properties mapped to that file report it?  Results appended to /tmp/mut/results.jsonl."""
import json, os, random, re, subprocess, sys, time
REPO='/tmp/mut/repo'; SRC=REPO+'/ffuzzy/src/internals'
FILES={
 'compare.rs':['C02','C10','C17','C09','C08','C20'],
 'compare/position_array.rs':['C08','C09','C17','C02'],
 'generate.rs':['C01','C03','C12','C13'],
 'generate_easy.rs':['C03'], 'generate_easy_std.rs':['C18','C03'],
 'hash.rs':['C04','C05','C06','C11','C15','C16','C10'],
 'hash/algorithms.rs':['C04','C06','C11'],
 'hash/block.rs':['C20','C10','C04','C05'],
 'hash_dual.rs':['C07','C11','C15','C16'],
 'generate/hashes/partial_fnv.rs':['C19','C01'],
 'generate/hashes/rolling_hash.rs':['C19','C01'],
 'compare_easy.rs':['C02'], 'base64.rs':['C05','C04'], 'utils.rs':['C13','C17'],
}
OPS=[(r'(?<![<>=!\-])<(?![<=])',' <= '),(r'<=(?!=)','<'),(r'(?<![<>=\-])>(?![>=])','>='),(r'>=(?!=)','>'),(r'==','!='),(r'!=','=='),
     (r'&&','||'),(r'\|\|','&&'),(r'(?<![+\w])\+ 1\b','+ 2'),(r'- 1\b','- 2'),(r'\+ 1\b',''),(r'- 1\b',''),(r'(?<=\s)\+(?=\s)','-'),(r'(?<=\s)-(?=\s)','+'),
     (r'\b7\b','6'),(r'\b64\b','63'),(r'\b32\b','31'),(r'\b3\b','4'),(r'\btrue\b','false'),(r'\bfalse\b','true'),(r'\bFULL_SIZE\b','HALF_SIZE'),
     (r'<<','>>'),(r'\.wrapping_add\(','.wrapping_sub('),(r'\bmin\(','max('),(r'\bmax\(','min(')]
def code_lines(path):
    out=[]; txt=open(path).read().split('\n'); depth_test=False
    for i,l in enumerate(txt):
        st=l.strip()
        if st.startswith('//') or st.startswith('#[') or st.startswith('///') or not st: continue
        if 'mod tests' in st or 'mod test_utils' in st: break
        if st.startswith(('use ','pub use ','pub(crate) use ','const _','macro_rules!')): continue
        if '//!' in st: continue
        code=l.split('//')[0]
        if not code.strip(): continue
        # skip declaration-like lines (generics, signatures, bounds, attributes, struct fields, doc text)
        if re.search(r'\b(impl|where|fn|struct|enum|trait|type|pub const|static)\b', st) or '->' in st or 'Constrained' in st or "<'" in st or '::<' in st:
            continue
        out.append((i,code))
    return txt,out
def sh(cmd,cwd=None,env=None,timeout=3600):
    p=subprocess.run(cmd,shell=True,cwd=cwd,env=env,stdout=subprocess.PIPE,stderr=subprocess.STDOUT,text=True,timeout=timeout)
    return p.returncode,p.stdout
def main():
    n=int(sys.argv[1]); seed=int(sys.argv[2]) if len(sys.argv)>2 else 1
    rnd=random.Random(seed)
    cands=[]
    for f in FILES:
        path=os.path.join(SRC,f)
        if not os.path.exists(path): continue
        txt,lines=code_lines(path)
        for i,code in lines:
            for k,(rx,rep) in enumerate(OPS):
                for m in re.finditer(rx,code):
                    cands.append((f,i,k,m.start(),m.end()))
    rnd.shuffle(cands)
    done=set()
    if os.path.exists('/tmp/mut/results.jsonl'):
        for l in open('/tmp/mut/results.jsonl'):
            r=json.loads(l); done.add((r['file'],r['line'],r['op'],r['col']))
    env=dict(os.environ); env['CARGO_NET_OFFLINE']='true'; env['CARGO_TARGET_DIR']='/tmp/mut/target'
    cnt=0
    for f,i,k,a,b in cands:
        if cnt>=n: break
        if (f,i,k,a) in done: continue
        path=os.path.join(SRC,f); txt=open(path).read().split('\n')
        old=txt[i]; new=old[:a]+OPS[k][1]+old[b:]
        if new==old: continue
        sh('git checkout -q -- .',cwd=REPO)
        txt[i]=new; open(path,'w').write('\n'.join(txt))
        rec={'file':f,'line':i+1,'op':k,'col':a,'old':old.strip(),'new':new.strip()}
        t0=time.time()
        rc,out=sh('cargo test --offline --lib 2>&1 | tail -40',cwd=REPO+'/ffuzzy',env=env,timeout=1800)
        m=re.search(r'test result: (\w+)\. (\d+) passed; (\d+) failed',out)
        if not m:
            rec['tests']='build-failed'
        elif m.group(1)!='ok':
            rec['tests']='killed'
        else:
            rc2,out2=sh('cargo test --offline --doc 2>&1 | tail -15',cwd=REPO+'/ffuzzy',env=env,timeout=1800)
            m2=re.search(r'test result: (\w+)\.',out2)
            rec['tests']='survived' if (m2 and m2.group(1)=='ok') else 'killed-doc'
        rec['test_s']=round(time.time()-t0,1)
        if rec['tests']=='survived':
            env2=dict(os.environ); env2['VERIF_REPO']=REPO; env2['VERIF_CACHE']='/tmp/mut/cache'
            verdicts={}
            for pid in FILES[f]:
                rc3,out3=sh('bin/check %s 2>&1 | tail -2'%pid,cwd='/verif',env=env2,timeout=3600)
                last=out3.strip().split('\n')[-1] if out3.strip() else ''
                verdicts[pid]={'exit':('VIOLATION' if 'VIOLATION' in last else 'UNDECIDED' if 'UNDECIDED' in last else 'OK' if last.startswith('OK') else '?'),'line':out3.strip()[-600:]}
            rec['checks']=verdicts
            rec['detected']=any(v['exit']=='VIOLATION' for v in verdicts.values())
            rec['check_s']=round(time.time()-t0-rec['test_s'],1)
        with open('/tmp/mut/results.jsonl','a') as fh: fh.write(json.dumps(rec)+'\n')
        cnt+=1
    sh('git checkout -q -- .',cwd=REPO)
if __name__=='__main__': main()
