use vstd::prelude::*;
verus! {
pub open spec fn bit(x: u64, i: u64) -> bool { (x >> i) & 1 == 1 }
pub open spec fn carry(x: u64, t: u64, i: u64) -> bool {
    let m: u64 = ((1u64 << i) - 1) as u64;
    (((x & m) + (t & m)) as u64 >> i) & 1 == 1
}
proof fn carry_step(x: u64, t: u64, i: u64)
    requires i < 63
    ensures carry(x, t, (i + 1) as u64) == ((bit(x, i) && bit(t, i)) || (bit(x, i) && carry(x, t, i)) || (bit(t, i) && carry(x, t, i))),
{
    assert(i < 63 ==> (
      ((((x & (((1u64 << ((i + 1) as u64)) - 1) as u64)) + (t & (((1u64 << ((i + 1) as u64)) - 1) as u64))) as u64 >> ((i + 1) as u64)) & 1 == 1)
      ==
      ( (((x >> i) & 1 == 1) && ((t >> i) & 1 == 1))
        || (((x >> i) & 1 == 1) && ((((x & (((1u64 << i) - 1) as u64)) + (t & (((1u64 << i) - 1) as u64))) as u64 >> i) & 1 == 1))
        || (((t >> i) & 1 == 1) && ((((x & (((1u64 << i) - 1) as u64)) + (t & (((1u64 << i) - 1) as u64))) as u64 >> i) & 1 == 1)) )
    )) by(bit_vector);
}
proof fn sum_bit(x: u64, t: u64, i: u64)
    requires i < 64
    ensures bit(add(x, t), i) == (bit(x, i) ^ bit(t, i) ^ carry(x, t, i))
{
    assert(i < 64 ==> (
      ((add(x, t) >> i) & 1 == 1)
      ==
      ( ((x >> i) & 1 == 1) ^ ((t >> i) & 1 == 1) ^ ((((x & (((1u64 << i) - 1) as u64)) + (t & (((1u64 << i) - 1) as u64))) as u64 >> i) & 1 == 1) )
    )) by(bit_vector);
}
}
fn main() {}
