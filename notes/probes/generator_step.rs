// The body of `update_by_byte` below is rustc's expansion of
// `generator_update_template!(self.0, [ch; 1], {})` from the pinned tree with
// rules R1 (invariant! -> assert), R9 ([ch;1] loop) and R10 (IterMut sub-slice
// loop) applied by hand.  Under the *shape* invariant only, Verus leaves open
// exactly one obligation: `bh_context[i + 1]` in bounds at the elimination
// test (needs the semantic invariant of DESIGN.md §C01), plus the
// break-vs-invariant formulation (`invariant_except_break`).
use vstd::prelude::*;
verus! {
pub const BLOCKHASH_CHAR_NIL: u8 = 0xff;
pub const FULL_SIZE: usize = 64;
pub const HALF_SIZE: usize = 32;
pub const NUM_VALID: usize = 31;
pub const MIN: u32 = 3;
pub fn unlikely(b: bool) -> (r: bool) ensures r == b { b }
pub fn likely(b: bool) -> (r: bool) ensures r == b { b }

#[derive(Clone, Copy)]
pub struct PartialFNVHash(pub u8);
impl PartialFNVHash {
    pub fn new() -> (r: Self) ensures r.0 == 0x27 { PartialFNVHash(0x27) }
    #[verifier::external_body]
    pub fn update_by_byte(&mut self, ch: u8) -> (r: &mut Self)
        ensures *final(self) == *final(r), r.0 < 64
    { unimplemented!() }
    pub fn value(&self) -> (r: u8) requires self.0 < 64 ensures r == self.0 { self.0 }
}
#[derive(Clone, Copy)]
pub struct RollingHash { pub h: u32 }
impl RollingHash {
    #[verifier::external_body]
    pub fn update_by_byte(&mut self, ch: u8) -> (r: &mut Self)
        ensures *final(self) == *final(r)
    { unimplemented!() }
    pub fn value(&self) -> u32 { self.h }
}
#[derive(Clone, Copy)]
pub struct BlockHashContext {
    pub blockhash_index: usize,
    pub blockhash: [u8; FULL_SIZE],
    pub blockhash_ch_half: u8,
    pub h_full: PartialFNVHash,
    pub h_half: PartialFNVHash,
}
impl BlockHashContext {
    pub fn reset(&mut self)
        ensures final(self).blockhash_index == 0, final(self).h_full.0 < 64, final(self).h_half.0 < 64
    {
        self.blockhash_index = 0;
        self.blockhash[FULL_SIZE - 1] = BLOCKHASH_CHAR_NIL;
        self.blockhash_ch_half = BLOCKHASH_CHAR_NIL;
        self.h_full = PartialFNVHash::new();
        self.h_half = PartialFNVHash::new();
    }
}
pub struct GeneratorInnerData {
    pub input_size: u64,
    pub fixed_size: Option<u64>,
    pub elim_border: u64,
    pub bhidx_start: usize,
    pub bhidx_end: usize,
    pub bhidx_end_limit: usize,
    pub roll_mask: u32,
    pub roll_hash: RollingHash,
    pub bh_context: [BlockHashContext; NUM_VALID],
    pub h_last: PartialFNVHash,
    pub is_last: bool,
}
pub struct Generator(pub GeneratorInnerData);

pub open spec fn inv(g: &GeneratorInnerData) -> bool {
    &&& g.bhidx_start < g.bhidx_end <= 31
    &&& g.bhidx_end_limit <= 30
    &&& g.h_last.0 < 64
    &&& forall|k: int| 0 <= k < 31 ==> (#[trigger] g.bh_context[k]).blockhash_index < 64 && g.bh_context[k].h_full.0 < 64 && g.bh_context[k].h_half.0 < 64
}

impl Generator {
    pub fn update_by_byte(&mut self, ch: u8) -> (r: &mut Self)
        requires inv(&old(self).0)
        ensures *final(self) == *final(r), inv(&r.0)
    {
        self.0.input_size = self.0.input_size.saturating_add(1);
        {
            let mut __n: usize = 0;
            while __n < 1
                invariant __n <= 1, inv(&self.0)
                decreases 1 - __n
            {
                __n += 1;
                let ch = ch;
                {};
                self.0.roll_hash.update_by_byte(ch);
                if self.0.is_last { self.0.h_last.update_by_byte(ch); }
                let mut __k = self.0.bhidx_start;
                let __hi = self.0.bhidx_end;
                while __k < __hi
                    invariant inv(&self.0), self.0.bhidx_start <= __k <= __hi, __hi == self.0.bhidx_end
                    decreases __hi - __k
                {
                    self.0.bh_context[__k].h_full.update_by_byte(ch);
                    self.0.bh_context[__k].h_half.update_by_byte(ch);
                    __k += 1;
                }
                let h_org = self.0.roll_hash.value().wrapping_add(1);
                let mut h = h_org / MIN;
                if unlikely(h_org == 0) { continue; }
                if likely(h & self.0.roll_mask != 0) { continue; }
                if h_org % MIN != 0 { continue; }
                assume(self.0.bhidx_start < 32);   // probe only
                h >>= self.0.bhidx_start;
                let mut i = self.0.bhidx_start;
                loop
                    invariant inv(&self.0), self.0.bhidx_start <= i < self.0.bhidx_end
                    decreases 31 - i
                {
                    {
                        if unlikely(self.0.bh_context[i].blockhash_index == 0) {
                            if self.0.bhidx_end > self.0.bhidx_end_limit {
                                if self.0.bhidx_end_limit == NUM_VALID - 1 &&
                                        !self.0.is_last {
                                    self.0.h_last = self.0.bh_context[i].h_full;
                                    self.0.is_last = true;
                                }
                            } else {
                                self.0.bh_context[i + 1].reset();
                                self.0.bh_context[i + 1].h_full =
                                    self.0.bh_context[i].h_full;
                                self.0.bh_context[i + 1].h_half =
                                    self.0.bh_context[i].h_half;
                                self.0.bhidx_end += 1;
                            }
                        }
                        let bh_curr_reused = &mut self.0.bh_context[i];
                        assert(bh_curr_reused.blockhash_index < FULL_SIZE);
                        bh_curr_reused.blockhash[bh_curr_reused.blockhash_index] =
                            bh_curr_reused.h_full.value();
                        bh_curr_reused.blockhash_ch_half =
                            bh_curr_reused.h_half.value();
                        if bh_curr_reused.blockhash_index <
                                FULL_SIZE - 1 {
                            bh_curr_reused.blockhash_index += 1;
                            bh_curr_reused.h_full = PartialFNVHash::new();
                            if bh_curr_reused.blockhash_index < HALF_SIZE {
                                bh_curr_reused.blockhash_ch_half = BLOCKHASH_CHAR_NIL;
                                bh_curr_reused.h_half = PartialFNVHash::new();
                            }
                        } else if self.0.bhidx_end - self.0.bhidx_start >= 2 &&
                                    self.0.elim_border <
                                        self.0.fixed_size.unwrap_or(self.0.input_size) &&
                                self.0.bh_context[i + 1].blockhash_index >=
                                    HALF_SIZE {
                            self.0.bhidx_start += 1;
                            self.0.roll_mask =
                                self.0.roll_mask.wrapping_mul(2).wrapping_add(1);
                            self.0.elim_border = self.0.elim_border.wrapping_mul(2);
                        }
                        if (h & 1) != 0 { break; }
                        h >>= 1;
                    };
                    i += 1;
                    if i >= self.0.bhidx_end { break; }
                };
            }
        };
        self
    }
}
}
fn main() {}
