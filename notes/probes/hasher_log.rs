use vstd::prelude::*;
verus! {
pub uninterp spec fn hlog<H: ?Sized>(h: &H) -> Seq<u8>;
#[verifier::external_trait_specification]
pub trait ExHasher {
    type ExternalTraitSpecificationFor: core::hash::Hasher;
    fn write(&mut self, bytes: &[u8])
        ensures hlog(final(self)) == hlog(old(self)) + bytes@;
    fn write_u8(&mut self, i: u8)
        ensures hlog(final(self)) == hlog(old(self)).push(i);
    fn finish(&self) -> u64;
}
pub struct D { pub a: u8, pub b: [u8; 4], pub l: u8 }
impl D {
    pub open spec fn stream(&self) -> Seq<u8> { seq![self.a] + self.b@.take(self.l as int) }
    pub fn hash_body<H: core::hash::Hasher>(&self, state: &mut H)
        requires self.l <= 4
        ensures hlog(final(state)) == hlog(old(state)) + self.stream()
    {
        state.write_u8(self.a);
        state.write(&self.b[0..self.l as usize]);
    }
}
}
fn main() {}
