use vstd::prelude::*;
verus! {
/// bit i (0 <= i < 64) of x
pub open spec fn bit64(x: u64, i: int) -> bool
    recommends 0 <= i < 64
{
    (x >> (i as u64)) & 1u64 == 1u64
}

/// `rep` (64 entries, one per symbol) is the position array of the string `s` (|s| <= 64):
/// bit i of entry c is set exactly when s[i] == c.  This is the property's
/// "a position array represents exactly the string it was built from".
pub open spec fn is_pa_of(rep: Seq<u64>, s: Seq<u8>) -> bool {
    &&& rep.len() == 64
    &&& s.len() <= 64
    &&& forall|c: int, i: int| 0 <= c < 64 && 0 <= i < 64 ==>
            #[trigger] bit64(rep[c], i) == (i < s.len() && s[i] == c)
}
// ======================================================================================
// Textbook LCS and the proof that the Hyyro / Crochemore bit-parallel recurrence
//     p = e & v;  v' = (v + p) | (v - p)
// maintains, column by column, "bit i of v is 0  <=>  L(i+1, j) - L(i, j) == 1"
// where L(i, j) = lcs(a[..i], b[..j]).  The number of zero bits is then lcs(a, b).
// Only assumption: the std contract of u64::count_zeros (= zeros_upto(v, 64)).
// ======================================================================================

// ---------- textbook LCS ----------

/// Length of a longest common subsequence: the textbook recursion on the last elements.
pub open spec fn lcs(a: Seq<u8>, b: Seq<u8>) -> nat
    decreases a.len() + b.len()
{
    if a.len() == 0 || b.len() == 0 {
        0
    } else if a.last() == b.last() {
        lcs(a.drop_last(), b.drop_last()) + 1
    } else {
        let p = lcs(a.drop_last(), b);
        let q = lcs(a, b.drop_last());
        if p >= q { p } else { q }
    }
}

pub proof fn lemma_lcs_symmetric(a: Seq<u8>, b: Seq<u8>)
    ensures lcs(a, b) == lcs(b, a)
    decreases a.len() + b.len()
{
    if a.len() == 0 || b.len() == 0 {
    } else {
        lemma_lcs_symmetric(a.drop_last(), b.drop_last());
        lemma_lcs_symmetric(a.drop_last(), b);
        lemma_lcs_symmetric(a, b.drop_last());
    }
}

pub proof fn lemma_lcs_bounds(a: Seq<u8>, b: Seq<u8>)
    ensures lcs(a, b) <= a.len(), lcs(a, b) <= b.len()
    decreases a.len() + b.len()
{
    if a.len() == 0 || b.len() == 0 {
    } else {
        lemma_lcs_bounds(a.drop_last(), b.drop_last());
        lemma_lcs_bounds(a.drop_last(), b);
        lemma_lcs_bounds(a, b.drop_last());
    }
}

/// Neighbouring cells of the LCS table differ by 0 or 1 (both directions).
pub proof fn lemma_lcs_diff(a: Seq<u8>, b: Seq<u8>)
    ensures
        a.len() > 0 ==> lcs(a.drop_last(), b) <= lcs(a, b) <= lcs(a.drop_last(), b) + 1,
        b.len() > 0 ==> lcs(a, b.drop_last()) <= lcs(a, b) <= lcs(a, b.drop_last()) + 1,
    decreases a.len() + b.len()
{
    if a.len() == 0 || b.len() == 0 {
        if a.len() > 0 { assert(lcs(a.drop_last(), b) == 0); }
        if b.len() > 0 { assert(lcs(a, b.drop_last()) == 0); }
    } else {
        lemma_lcs_diff(a.drop_last(), b);
        lemma_lcs_diff(a, b.drop_last());
    }
}

/// One cell of the table, stated with push (a1 = a.push(x), b1 = b.push(c)).
pub proof fn lemma_lcs_cell(a: Seq<u8>, x: u8, b: Seq<u8>, c: u8)
    ensures
        lcs(a, b) <= lcs(a.push(x), b) <= lcs(a, b) + 1,
        lcs(a, b) <= lcs(a, b.push(c)) <= lcs(a, b) + 1,
        x == c ==> lcs(a.push(x), b.push(c)) == lcs(a, b) + 1,
        x != c ==> lcs(a.push(x), b.push(c)) == (if lcs(a, b.push(c)) >= lcs(a.push(x), b) { lcs(a, b.push(c)) } else { lcs(a.push(x), b) }),
{
    let a1 = a.push(x);
    let b1 = b.push(c);
    assert(a1.drop_last() =~= a);
    assert(b1.drop_last() =~= b);
    assert(a1.last() == x);
    assert(b1.last() == c);
    lemma_lcs_diff(a1, b);
    lemma_lcs_diff(a, b1);
}

/// lcs is monotone in prefixes of the first argument
pub proof fn lemma_lcs_mono_take_left(a: Seq<u8>, b: Seq<u8>, p: int)
    requires 0 <= p <= a.len()
    ensures lcs(a.take(p), b) <= lcs(a, b)
    decreases a.len() - p
{
    if p == a.len() {
        assert(a.take(p) =~= a);
    } else {
        lemma_lcs_mono_take_left(a, b, p + 1);
        let a1 = a.take(p + 1);
        assert(a1.drop_last() =~= a.take(p));
        lemma_lcs_diff(a1, b);
    }
}

/// lcs is monotone in prefixes of both arguments
pub proof fn lemma_lcs_mono_take(a: Seq<u8>, b: Seq<u8>, p: int, q: int)
    requires 0 <= p <= a.len(), 0 <= q <= b.len()
    ensures lcs(a.take(p), b.take(q)) <= lcs(a, b)
{
    lemma_lcs_mono_take_left(a, b.take(q), p);
    lemma_lcs_mono_take_left(b, a, q);
    lemma_lcs_symmetric(a, b.take(q));
    lemma_lcs_symmetric(a, b);
}

/// a common run of n symbols ending at a[..p], b[..q] gives lcs(a[..p], b[..q]) >= n
pub proof fn lemma_lcs_common_suffix(a: Seq<u8>, b: Seq<u8>, p: int, q: int, n: int)
    requires
        0 <= n <= p <= a.len(),
        n <= q <= b.len(),
        a.subrange(p - n, p) =~= b.subrange(q - n, q),
    ensures lcs(a.take(p), b.take(q)) >= n
    decreases n
{
    if n > 0 {
        let a1 = a.take(p);
        let b1 = b.take(q);
        let sa = a.subrange(p - n, p);
        let sb = b.subrange(q - n, q);
        assert(sa[n - 1] == a[p - 1]);
        assert(sb[n - 1] == b[q - 1]);
        assert(a1.last() == b1.last());
        assert(a1.drop_last() =~= a.take(p - 1));
        assert(b1.drop_last() =~= b.take(q - 1));
        assert(a.subrange(p - n, p - 1) =~= sa.drop_last());
        assert(b.subrange(q - n, q - 1) =~= sb.drop_last());
        lemma_lcs_common_suffix(a, b, p - 1, q - 1, n - 1);
    }
}

/// a common substring of length n forces lcs(a, b) >= n
pub proof fn lemma_lcs_common_substring(a: Seq<u8>, b: Seq<u8>, i: int, j: int, n: int)
    requires
        0 <= i, i + n <= a.len(),
        0 <= j, j + n <= b.len(),
        n >= 0,
        a.subrange(i, i + n) == b.subrange(j, j + n),
    ensures lcs(a, b) >= n
{
    lemma_lcs_common_suffix(a, b, i + n, j + n, n);
    lemma_lcs_mono_take(a, b, i + n, j + n);
}

// ---------- bit-level facts (bit_vector, symbolic bit index) ----------

/// carry INTO bit i of the 64-bit addition x + t
pub open spec fn carry64(x: u64, t: u64, i: u64) -> bool {
    let m: u64 = ((1u64 << i) - 1) as u64;
    (((x & m) + (t & m)) as u64 >> i) & 1 == 1
}

pub open spec fn bitu(x: u64, i: u64) -> bool { (x >> i) & 1u64 == 1u64 }

pub proof fn lemma_bit64_bitu(x: u64, i: int)
    requires 0 <= i < 64
    ensures bit64(x, i) == bitu(x, i as u64)
{
}

/// exactly the loop body of edit_distance_internal
pub open spec fn hyyro_step(v: u64, e: u64) -> u64 {
    let p = e & v;
    (v.wrapping_add(p)) | (v.wrapping_sub(p))
}

pub proof fn lemma_wrapping_add_is_bv_add(x: u64, t: u64)
    ensures x.wrapping_add(t) == add(x, t)
{
    let s = x.wrapping_add(t);
    assert(s == x + t || s + 0x1_0000_0000_0000_0000 == x + t);
    assert((s == x + t || s + 0x1_0000_0000_0000_0000 == x + t) ==> s == add(x, t)) by (bit_vector);
}

pub proof fn lemma_wrapping_sub_is_bv_sub(x: u64, t: u64)
    ensures x.wrapping_sub(t) == sub(x, t)
{
    let s = x.wrapping_sub(t);
    assert(s == x - t || s == x - t + 0x1_0000_0000_0000_0000);
    assert((s == x - t || s == x - t + 0x1_0000_0000_0000_0000) ==> s == sub(x, t)) by (bit_vector);
}

pub proof fn lemma_carry_zero(x: u64, t: u64)
    ensures !carry64(x, t, 0)
{
    assert(!((((x & (((1u64 << 0u64) - 1) as u64)) + (t & (((1u64 << 0u64) - 1) as u64))) as u64 >> 0u64) & 1 == 1)) by (bit_vector);
}

/// carry chain of v + (e & v): since (e & v) is a subset of v, maj(v_i, p_i, c_i) = v_i & (e_i | c_i)
pub proof fn lemma_carry_step(v: u64, e: u64, i: u64)
    requires i < 63
    ensures carry64(v, e & v, (i + 1) as u64) == (bitu(v, i) && (bitu(e, i) || carry64(v, e & v, i)))
{
    assert(i < 63 ==> (
      ((((v & (((1u64 << ((i + 1) as u64)) - 1) as u64)) + ((e & v) & (((1u64 << ((i + 1) as u64)) - 1) as u64))) as u64 >> ((i + 1) as u64)) & 1 == 1)
      ==
      ( ((v >> i) & 1u64 == 1u64)
        && ( ((e >> i) & 1u64 == 1u64)
             || ((((v & (((1u64 << i) - 1) as u64)) + ((e & v) & (((1u64 << i) - 1) as u64))) as u64 >> i) & 1 == 1) ) )
    )) by (bit_vector);
}

/// bit i of the new v:  (v_i ^ p_i ^ carry_i) | (v_i & !e_i)
pub proof fn lemma_step_bit(v: u64, e: u64, i: u64)
    requires i < 64
    ensures bitu(hyyro_step(v, e), i)
        == ((bitu(v, i) ^ (bitu(e, i) && bitu(v, i)) ^ carry64(v, e & v, i)) || (bitu(v, i) && !bitu(e, i)))
{
    lemma_wrapping_add_is_bv_add(v, e & v);
    lemma_wrapping_sub_is_bv_sub(v, e & v);
    assert(hyyro_step(v, e) == add(v, e & v) | sub(v, e & v));
    assert(i < 64 ==> (
      (((add(v, e & v) | sub(v, e & v)) >> i) & 1u64 == 1u64)
      ==
      ( ( ((v >> i) & 1u64 == 1u64) ^ (((e >> i) & 1u64 == 1u64) && ((v >> i) & 1u64 == 1u64))
          ^ ((((v & (((1u64 << i) - 1) as u64)) + ((e & v) & (((1u64 << i) - 1) as u64))) as u64 >> i) & 1 == 1) )
        || ( ((v >> i) & 1u64 == 1u64) && !((e >> i) & 1u64 == 1u64) ) )
    )) by (bit_vector);
}

pub proof fn lemma_allones_bit(i: u64)
    requires i < 64
    ensures bitu(0xffff_ffff_ffff_ffffu64, i)
{
    assert(i < 64 ==> ((0xffff_ffff_ffff_ffffu64 >> i) & 1u64 == 1u64)) by (bit_vector);
}

// ---------- zero counting ----------

/// number of i in 0..n with bit i of v clear
pub open spec fn zeros_upto(v: u64, n: int) -> nat
    decreases n
{
    if n <= 0 { 0 } else { zeros_upto(v, n - 1) + (if bit64(v, n - 1) { 0nat } else { 1nat }) }
}

pub open spec fn popcnt0(v: u64) -> nat { zeros_upto(v, 64) }

/// ASSUMED std contract (the only assumption of this file): count_zeros counts the clear bits.
pub assume_specification [u64::count_zeros] (v: u64) -> (r: u32)
    ensures r as nat == zeros_upto(v, 64);

pub proof fn lemma_zeros_upto_le(v: u64, n: int)
    requires 0 <= n
    ensures zeros_upto(v, n) <= n
    decreases n
{
    if n > 0 { lemma_zeros_upto_le(v, n - 1); }
}

// ---------- the invariant ----------

/// D_j[i]: the i-th vertical difference of column b is 1:  lcs(a[..i+1], b) == lcs(a[..i], b) + 1
pub open spec fn lcs_dbit(a: Seq<u8>, b: Seq<u8>, i: int) -> bool {
    0 <= i < a.len() && lcs(a.take(i + 1), b) == lcs(a.take(i), b) + 1
}

/// K[i]: appending c to b increases row i:  lcs(a[..i], b.push(c)) == lcs(a[..i], b) + 1
pub open spec fn lcs_kbit(a: Seq<u8>, b: Seq<u8>, c: u8, i: int) -> bool {
    0 <= i <= a.len() && lcs(a.take(i), b.push(c)) == lcs(a.take(i), b) + 1
}

/// after processing b: bit i of v is CLEAR exactly when i < |a| and the vertical difference D[i] is 1
pub open spec fn hyyro_inv(a: Seq<u8>, b: Seq<u8>, v: u64) -> bool {
    &&& a.len() <= 64
    &&& forall|i: int| 0 <= i < 64 ==> #[trigger] bit64(v, i) == !lcs_dbit(a, b, i)
}

pub proof fn lemma_hyyro_init(a: Seq<u8>)
    requires a.len() <= 64
    ensures
        hyyro_inv(a, Seq::empty(), 0xffff_ffff_ffff_ffffu64),
        hyyro_inv(a, Seq::empty(), !0u64),
{
    assert(!0u64 == 0xffff_ffff_ffff_ffffu64) by (bit_vector);
    let v = 0xffff_ffff_ffff_ffffu64;
    let b = Seq::<u8>::empty();
    assert forall|i: int| 0 <= i < 64 implies #[trigger] bit64(v, i) == !lcs_dbit(a, b, i) by {
        lemma_allones_bit(i as u64);
        if i < a.len() {
            assert(lcs(a.take(i + 1), b) == 0);
            assert(lcs(a.take(i), b) == 0);
        }
    }
}

/// the four table cells around row i (0 <= i < |a|) for columns b and b.push(c)
pub proof fn lemma_lcs_cell_take(a: Seq<u8>, b: Seq<u8>, c: u8, i: int)
    requires 0 <= i < a.len()
    ensures
        lcs_kbit(a, b, c, i + 1) == (!lcs_dbit(a, b, i) && (a[i] == c || lcs_kbit(a, b, c, i))),
        lcs_dbit(a, b.push(c), i) == (!lcs_kbit(a, b, c, i) && (a[i] == c || lcs_dbit(a, b, i))),
{
    let a0 = a.take(i);
    assert(a.take(i + 1) =~= a0.push(a[i]));
    lemma_lcs_cell(a0, a[i], b, c);
}

/// carry into bit i of v + (e & v) == K[i]
pub proof fn lemma_carry_is_kbit(a: Seq<u8>, b: Seq<u8>, c: u8, v: u64, e: u64, i: int)
    requires
        hyyro_inv(a, b, v),
        forall|k: int| 0 <= k < 64 ==> #[trigger] bit64(e, k) == (k < a.len() && a[k] == c),
        0 <= i <= a.len(),
        i < 64,
    ensures
        carry64(v, e & v, i as u64) == lcs_kbit(a, b, c, i),
    decreases i
{
    if i == 0 {
        lemma_carry_zero(v, e & v);
        assert(lcs(a.take(0), b.push(c)) == 0);
        assert(lcs(a.take(0), b) == 0);
    } else {
        let j = i - 1;
        lemma_carry_is_kbit(a, b, c, v, e, j);
        lemma_carry_step(v, e, j as u64);
        lemma_lcs_cell_take(a, b, c, j);
        assert(bit64(v, j) == !lcs_dbit(a, b, j));
        assert(bit64(e, j) == (a[j] == c));
        assert((j as u64 + 1) as u64 == i as u64);
    }
}

pub proof fn lemma_hyyro_step(a: Seq<u8>, b: Seq<u8>, c: u8, rep: Seq<u64>, v: u64)
    requires
        is_pa_of(rep, a),
        c < 64,
        hyyro_inv(a, b, v),
    ensures
        hyyro_inv(a, b.push(c), hyyro_step(v, rep[c as int])),
{
    let e = rep[c as int];
    let v1 = hyyro_step(v, e);
    let b1 = b.push(c);
    assert forall|k: int| 0 <= k < 64 implies #[trigger] bit64(e, k) == (k < a.len() && a[k] == c) by {
        assert(bit64(rep[c as int], k) == (k < a.len() && a[k] == c as int));
    }
    assert forall|i: int| 0 <= i < 64 implies #[trigger] bit64(v1, i) == !lcs_dbit(a, b1, i) by {
        lemma_step_bit(v, e, i as u64);
        assert(bit64(v, i) == !lcs_dbit(a, b, i));
        assert(bit64(e, i) == (i < a.len() && a[i] == c));
        if i < a.len() {
            lemma_carry_is_kbit(a, b, c, v, e, i);
            lemma_lcs_cell_take(a, b, c, i);
        } else {
        }
    }
}

/// zeros among the low k bits == lcs(a[..min(k,|a|)], b)   (telescoping sum of the D[i])
pub proof fn lemma_zeros_is_lcs(a: Seq<u8>, b: Seq<u8>, v: u64, k: int)
    requires hyyro_inv(a, b, v), 0 <= k <= 64
    ensures zeros_upto(v, k) == lcs(a.take(if k <= a.len() { k } else { a.len() as int }), b)
    decreases k
{
    if k == 0 {
        assert(lcs(a.take(0), b) == 0);
    } else {
        let j = k - 1;
        lemma_zeros_is_lcs(a, b, v, j);
        assert(bit64(v, j) == !lcs_dbit(a, b, j));
        if j < a.len() {
            let a1 = a.take(j + 1);
            assert(a1.drop_last() =~= a.take(j));
            lemma_lcs_diff(a1, b);
        }
    }
}

pub proof fn lemma_hyyro_final(a: Seq<u8>, b: Seq<u8>, v: u64)
    requires hyyro_inv(a, b, v)   // (implies a.len() <= 64)
    ensures zeros_upto(v, 64) == lcs(a, b), lcs(a, b) <= a.len(), lcs(a, b) <= b.len(), zeros_upto(v, 64) <= 64
{
    lemma_zeros_is_lcs(a, b, v, 64);
    assert(a.take(a.len() as int) =~= a);
    lemma_lcs_bounds(a, b);
    lemma_zeros_upto_le(v, 64);
}
fn ed(rep: &[u64; 64], len: u8, other: &[u8], Ghost(a): Ghost<Seq<u8>>) -> (d: u32)
    requires
        is_pa_of(rep@, a),
        a.len() == len,
        other@.len() <= 64,
        forall|i: int| 0 <= i < other@.len() ==> other@[i] < 64,
    ensures
        d == a.len() + other@.len() - 2 * lcs(a, other@),
{
    let mut v: u64 = !0;
    let mut k: usize = 0;
    proof {
        lemma_hyyro_init(a);
        assert(other@.take(0) =~= Seq::<u8>::empty());
    }
    while k < other.len()
        invariant
            k <= other@.len(),
            is_pa_of(rep@, a),
            forall|i: int| 0 <= i < other@.len() ==> other@[i] < 64,
            hyyro_inv(a, other@.take(k as int), v),
        decreases other@.len() - k
    {
        let ch = other[k];
        proof {
            lemma_hyyro_step(a, other@.take(k as int), ch, rep@, v);
            assert(other@.take(k as int).push(ch) =~= other@.take(k as int + 1));
        }
        k += 1;
        let e: u64 = rep[ch as usize];
        let p: u64 = e & v;
        v = (v.wrapping_add(p)) | (v.wrapping_sub(p));
    }
    proof {
        assert(other@.take(k as int) =~= other@);
        lemma_hyyro_final(a, other@, v);
    }
    let llcs = v.count_zeros();
    (len as u32) + (other.len() as u32) - 2 * llcs
}
}
fn main() {}
