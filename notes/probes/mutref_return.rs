use vstd::prelude::*;
verus! {
pub const ROLLING_WINDOW: usize = 7;
pub struct RollingHash { pub index: u32, pub h1: u32, pub h2: u32, pub h3: u32, pub window: [u8; ROLLING_WINDOW] }
impl RollingHash {
    pub const WINDOW_SIZE: usize = ROLLING_WINDOW;
    const H3_LSHIFT: usize = 5;
    pub open spec fn inv(&self) -> bool { self.index < 7 }
    pub fn new() -> (r: Self) ensures r.inv() {
        RollingHash { index: 0, h1: 0, h2: 0, h3: 0, window: [0; ROLLING_WINDOW] }
    }
    // body is the repository's text verbatim (invariant! -> assert)
    pub fn update_by_byte(&mut self, ch: u8) -> (r: &mut Self)
        requires old(self).inv()
        ensures *final(self) == *final(r), r.inv(),
            r.h1 == old(self).h1.wrapping_add(ch as u32).wrapping_sub(old(self).window[old(self).index as int] as u32)
    {
        assert((self.index as usize) < Self::WINDOW_SIZE);
        self.h2 = self.h2.wrapping_sub(self.h1);
        self.h2 = self.h2.wrapping_add(u32::wrapping_mul(ROLLING_WINDOW as u32, ch as u32));
        self.h1 = self.h1.wrapping_add(ch as u32);
        self.h1 = self.h1.wrapping_sub(self.window[self.index as usize] as u32);
        self.window[self.index as usize] = ch;
        self.index += 1;
        if self.index as usize == ROLLING_WINDOW { self.index = 0; }
        self.h3 <<= Self::H3_LSHIFT;
        self.h3 ^= ch as u32;
        self
    }
    pub fn value(&self) -> u32 { self.h1.wrapping_add(self.h2).wrapping_add(self.h3) }
}
fn caller(buf: &[u8]) -> (res: RollingHash) ensures res.inv() {
    let mut h = RollingHash::new();
    let mut i: usize = 0;
    while i < buf.len() invariant h.inv(), i <= buf.len() decreases buf.len() - i {
        let ch = buf[i]; i += 1;
        if ch == 3 { continue; }          // `continue` is fine in `while`, not in `for`
        h.update_by_byte(ch);
    }
    for ch in buf.iter() invariant h.inv() { h.update_by_byte(*ch); }
    h
}
}
fn main() {}
