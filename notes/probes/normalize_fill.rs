use vstd::prelude::*;
verus! {
pub struct BlockHashSize<const N: usize> {}
pub trait SealedBlockHashSize {}
impl SealedBlockHashSize for BlockHashSize<64> {}
impl SealedBlockHashSize for BlockHashSize<32> {}
pub trait ConstrainedBlockHashSize: SealedBlockHashSize { const SIZE: usize; }
impl<const SZ_BH: usize> ConstrainedBlockHashSize for BlockHashSize<SZ_BH>
where BlockHashSize<SZ_BH>: SealedBlockHashSize, { const SIZE: usize = SZ_BH; }

pub assume_specification<T: Clone> [<[T]>::fill] (s: &mut [T], v: T)
    ensures final(s)@.len() == old(s)@.len(), forall|i: int| 0 <= i < old(s)@.len() ==> final(s)@[i] == v;

pub const BASE64_INVALID: u8 = 0x40;
pub const MAX_SEQUENCE_SIZE: usize = 3;

pub(crate) fn normalize_block_hash_in_place_internal<const N: usize>(
    blockhash: &mut [u8; N], blockhash_len: &mut u8, originally_normalized: bool,
) where BlockHashSize<N>: ConstrainedBlockHashSize,
    requires *old(blockhash_len) as usize <= N,
    ensures *final(blockhash_len) <= *old(blockhash_len),
      forall|i: int| *final(blockhash_len) <= i < *old(blockhash_len) ==> final(blockhash)[i] == 0,
      forall|i: int| *old(blockhash_len) <= i < N ==> final(blockhash)[i] == old(blockhash)[i],
{
    if !originally_normalized {
        let mut seq: usize = 0;
        let mut prev = BASE64_INVALID;
        let old_blockhash_len = *blockhash_len;
        let mut len: usize = 0;
        assert(old_blockhash_len as usize <= N);
        let mut __it: usize = 0;
        let __end = old_blockhash_len as usize;
        while __it < __end
            invariant len <= __it <= __end, __end <= N, seq <= 3, __end == old_blockhash_len,
                forall|j: int| __end <= j < N ==> blockhash[j] == old(blockhash)[j],
            decreases __end - __it
        {
            let i = __it; __it += 1;
            let curr: u8 = blockhash[i];
            if curr == prev {
                seq += 1;
                if seq >= MAX_SEQUENCE_SIZE { seq = MAX_SEQUENCE_SIZE; continue; }
            } else { seq = 0; prev = curr; }
            assert(len < N);
            blockhash[len] = curr;
            len += 1;
        }
        *blockhash_len = len as u8;
        assert(len as u8 <= old_blockhash_len);
        assert(len <= N);
        blockhash[len..old_blockhash_len as usize].fill(0);
    }
}
}
fn main() {}
