use vstd::prelude::*;
verus! {
pub struct P(pub u8);
#[verifier::external_body]
pub fn vpanic() -> ! { panic!() }
pub open spec fn fnv6(s: u8, c: u8) -> u8 { ((((s as u32) * 0x01000193u32) as u8) ^ c) % 64 }
impl P {
    const PRIME: u32 = 0x01000193;
    #[verifier::external_body]
    const TABLE: [[u8; 64]; 64] = {
        let mut array = [[0u8; 64]; 64];
        let mut state = 0u8;
        while state < 64 {
            let mut ch = 0u8;
            while ch < 64 {
                array[state as usize][ch as usize] =
                    (((state as u32).wrapping_mul(Self::PRIME) as u8) ^ ch) % 64 as u8;
                ch += 1;
            }
            state += 1;
        }
        array
    };
    #[verifier::external_body]
    proof fn axiom_table()
        ensures forall|s: int, c: int| 0 <= s < 64 && 0 <= c < 64 ==> #[trigger] Self::TABLE[s][c] == fnv6(s as u8, c as u8)
    {}
    pub fn upd(&mut self, ch: u8)
        requires old(self).0 < 64
        ensures final(self).0 == fnv6(old(self).0, ch % 64)
    {
        proof { Self::axiom_table(); }
        self.0 = Self::TABLE[self.0 as usize][ch as usize % 64];
    }
    pub fn chk(x: u8) -> (r: u8) ensures r < 10 {
        if !(x < 10) { vpanic() }
        x
    }
}
}
fn main() {}
