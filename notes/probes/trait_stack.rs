use vstd::prelude::*;
verus! {
pub uninterp spec fn popcnt0(v: u64) -> u32;
pub assume_specification [u64::count_zeros] (v: u64) -> (r: u32) ensures r == popcnt0(v), r <= 64;
pub trait Data {
    spec fn rep_spec(&self) -> [u64; 64];
    spec fn len_spec(&self) -> u8;
    fn representation(&self) -> (r: &[u64; 64]) ensures *r == self.rep_spec();
    fn len(&self) -> (r: u8) ensures r == self.len_spec();
    fn is_empty(&self) -> bool { self.len() == 0 }
}
pub trait ImplInternal: Data {
    fn edit_distance_internal(&self, other: &[u8]) -> (d: u32)
        requires other.len() <= 64, self.len_spec() <= 64, forall|i: int| 0 <= i < other.len() ==> other[i] < 64
    {
        let len = self.len();
        let representation = self.representation();
        let mut v: u64 = !0;
        for chr in other.iter() {
            let ch = *chr;
            assume((ch as usize) < 64);          // probe only: the real unit proves this from `requires`
            let e: u64 = representation[ch as usize];
            let p: u64 = e & v;
            v = (v.wrapping_add(p)) | (v.wrapping_sub(p));
        }
        let llcs = v.count_zeros();
        assume(2 * llcs <= (len as u32) + (other.len() as u32));   // probe only
        (len as u32) + (other.len() as u32) - 2 * llcs
    }
}
impl<T> ImplInternal for T where T: Data {}
pub struct Ref<'a>(pub &'a [u64; 64], pub &'a u8);
impl Data for Ref<'_> {
    open spec fn rep_spec(&self) -> [u64; 64] { *self.0 }
    open spec fn len_spec(&self) -> u8 { *self.1 }
    fn representation(&self) -> &[u64; 64] { self.0 }
    fn len(&self) -> u8 { *self.1 }
}
pub struct Target { pub bh1: [u64; 64], pub l1: u8 }
impl Target {
    fn block_hash_1_internal(&self) -> (r: impl '_ + ImplInternal)
        ensures r.len_spec() == self.l1, r.rep_spec() == self.bh1
    { Ref(&self.bh1, &self.l1) }
    fn go(&self, o: &[u8]) -> u32
        requires o.len() <= 64, self.l1 <= 64, forall|i: int| 0 <= i < o.len() ==> o[i] < 64
    { self.block_hash_1_internal().edit_distance_internal(o) }
}
}
fn main() {}
