//! Shared input generators.

use crate::oracle::{self, Model, B64};
use crate::util::Rng;

// ---------------------------------------------------------------- byte strings

/// A 7-byte word whose rolling-hash value is exactly `target` (so, placed anywhere in an
/// input, the window right after it has that value).
pub fn word_for_roll(rng: &mut Rng, target: u32) -> [u8; 7] {
    loop {
        if let Some(w) = word_for_roll_bounded(rng, target, 1 << 20) {
            return w;
        }
    }
}

/// The same with a bounded effort (about 9000 tries are needed on average).
pub fn word_for_roll_bounded(rng: &mut Rng, target: u32, tries: u32) -> Option<[u8; 7]> {
    for _ in 0..tries {
        // guess h1+h2, then solve the shift/xor part for the rest, low symbols first
        let s = rng.below(8926) as u32;
        let h3 = target.wrapping_sub(s) as u64;
        let mut acc = 0u64;
        let mut w = [0u8; 7];
        for i in (0..7).rev() {
            let sh = 5 * (6 - i) as u32;
            let low5 = (((h3 ^ acc) >> sh) & 31) as u8;
            let b = low5 | ((rng.below(8) as u8) << 5);
            w[i] = b;
            acc ^= (b as u64) << sh;
            acc &= 0xffff_ffff;
        }
        if oracle::roll_of_window(&w) == target {
            return Some(w);
        }
    }
    None
}

thread_local! {
    /// a few words per level, made on demand (finding one costs ~0.1 ms)
    static WORDS: std::cell::RefCell<Vec<Vec<[u8; 7]>>> = std::cell::RefCell::new(vec![Vec::new(); 31]);
}

/// A word after which pieces end at levels 0..=level and not at level+1.
pub fn trigger_word(rng: &mut Rng, level: u8) -> [u8; 7] {
    let level = level.min(30);
    let have = WORDS.with(|w| w.borrow()[level as usize].len());
    if have >= 24 || (have >= 4 && !rng.chance(1, 8)) {
        let i = rng.below(have as u64) as usize;
        return WORDS.with(|w| w.borrow()[level as usize][i]);
    }
    let unit = 3u64 << level;
    let kmax = (1u64 << 32) / unit; // multiples k*unit - 1 that fit in u32
    let mut k = 1 + rng.below(kmax.max(1));
    if k % 2 == 0 {
        k -= 1;
    }
    let word = word_for_roll(rng, (k * unit - 1) as u32);
    WORDS.with(|w| w.borrow_mut()[level as usize].push(word));
    word
}

pub fn fill(rng: &mut Rng, out: &mut Vec<u8>, n: usize, style: u8) {
    match style % 6 {
        0 => out.extend((0..n).map(|_| rng.byte())),
        1 => {
            // low entropy
            let k = 2 + rng.below(3);
            let base = rng.byte();
            out.extend((0..n).map(|_| base.wrapping_add(rng.below(k) as u8)));
        }
        2 => {
            // periodic
            let p = rng.range(1, 23);
            let pat: Vec<u8> = (0..p).map(|_| rng.byte()).collect();
            out.extend((0..n).map(|i| pat[i % p]));
        }
        3 => {
            // zero-heavy
            out.extend((0..n).map(|_| if rng.chance(1, 40) { rng.byte() } else { 0 }));
        }
        4 => out.extend(std::iter::repeat(0u8).take(n)),
        _ => {
            // text-like
            out.extend((0..n).map(|_| b" etaoinshrdlu\n"[rng.below(14) as usize]));
        }
    }
}

/// Input of about `size` bytes in which `pieces` words force piece ends at `level`
/// (some at level+1 / level-1), filler in between.
pub fn adversarial(rng: &mut Rng, size: usize, level: u8, pieces: usize, style: u8) -> Vec<u8> {
    let mut out = Vec::with_capacity(size + 16);
    let gap = size / (pieces + 1);
    for _ in 0..pieces {
        let jitter = if gap > 8 { rng.range(0, gap / 4) } else { 0 };
        fill(rng, &mut out, gap.saturating_sub(7 + jitter), style);
        let l = match rng.below(8) {
            0 => level.saturating_sub(1),
            1 | 2 => (level + 1).min(30),
            3 => (level + 2).min(30),
            _ => level,
        };
        out.extend_from_slice(&trigger_word(rng, l));
    }
    let rest = size.saturating_sub(out.len());
    fill(rng, &mut out, rest, style);
    if rng.chance(1, 2) && !out.is_empty() {
        // a non-zero tail, so that the pending piece is visible even with zero filler
        let n = out.len();
        for i in n.saturating_sub(rng.range(1, 3))..n {
            out[i] = 1 + rng.below(255) as u8;
        }
    } else if rng.chance(1, 2) {
        // end with rolling hash 0 (the "nothing pending" case) or u32::MAX
        let t = if rng.chance(1, 3) { u32::MAX } else { 0 };
        let w = if rng.chance(1, 2) { [0u8; 7] } else { word_for_roll(rng, t) };
        let n = out.len();
        if n >= 7 {
            out[n - 7..].copy_from_slice(&w);
        } else {
            out.extend_from_slice(&w);
        }
    }
    out
}

/// A size on, just below or just above a block-size border 192*2^n (n <= max_n), or a
/// completely free one.
pub fn border_size(rng: &mut Rng, max_n: u32) -> usize {
    let n = rng.below(max_n as u64 + 1) as u32;
    let b = 192usize << n;
    match rng.below(10) {
        0 => b,
        1 => b - 1,
        2 => b + 1,
        3 => b - 2,
        4 => b + 2,
        5 => b / 2 + rng.range(0, 3),
        6 => rng.range(0, 64),
        7 => 4094 + rng.range(0, 4),
        _ => rng.range(b / 2, b + b / 8),
    }
}

/// One generator input of the given family (0 random, 1..5 fill styles, 6/7 adversarial).
pub fn gen_input(rng: &mut Rng, max_n: u32) -> (Vec<u8>, String) {
    let size = border_size(rng, max_n);
    let fam = rng.below(9) as u8;
    if fam >= 6 {
        let init = (0u8..31).find(|&n| (192usize << n) >= size).unwrap_or(0);
        let level = match rng.below(4) {
            0 => init.saturating_sub(1),
            1 => init + 1,
            _ => init,
        };
        let pieces = *rng.pick(&[0usize, 1, 2, 30, 31, 32, 33, 40, 62, 63, 64, 65, 66, 80, 130]);
        let style = *rng.pick(&[0u8, 3, 4, 4, 4, 1]);
        let d = adversarial(rng, size, level, pieces, style);
        let desc = format!("adversarial(size~{}, level={}, pieces={}, filler={})", size, level, pieces, style);
        (d, desc)
    } else {
        let mut d = Vec::with_capacity(size);
        fill(rng, &mut d, size, fam);
        (d, format!("fill(size={}, style={})", size, fam))
    }
}

// ---------------------------------------------------------------- block hashes / models / texts

const LENS: [usize; 22] = [0, 1, 2, 3, 4, 5, 6, 7, 8, 9, 15, 16, 30, 31, 32, 33, 34, 48, 62, 63, 64, 64];

pub fn bh_len(rng: &mut Rng, max: usize) -> usize {
    if rng.chance(1, 3) {
        rng.range(0, max)
    } else {
        loop {
            let l = *rng.pick(&LENS);
            if l <= max {
                return l;
            }
        }
    }
}

/// Symbol string of exactly `len` symbols; runs are likely.
pub fn bh_raw(rng: &mut Rng, len: usize) -> Vec<u8> {
    let alpha = *rng.pick(&[1u64, 2, 2, 3, 4, 8, 64, 64]);
    let off = if rng.chance(1, 2) { 0 } else { rng.below(64 - alpha + 1) };
    let runny = rng.below(3);
    let mut out: Vec<u8> = Vec::with_capacity(len);
    while out.len() < len {
        let s = (off + rng.below(alpha)) as u8;
        let run = match runny {
            0 => 1,
            1 => *rng.pick(&[1usize, 1, 1, 2, 3, 4, 5, 7]),
            _ => *rng.pick(&[1usize, 3, 4, 4, 5, 8, 9, 12, 13, 16, 17, 31, 60, 64]),
        };
        for _ in 0..run.min(len - out.len()) {
            out.push(s);
        }
    }
    out
}

/// Normalized (no run > 3) string of at most `max` symbols.
pub fn bh_norm(rng: &mut Rng, max: usize) -> Vec<u8> {
    let len = bh_len(rng, max);
    let mut v = oracle::collapse(&bh_raw(rng, len));
    // top up to the wanted length with non-repeating symbols so that 63/64 really occur
    while v.len() < len {
        let mut s = rng.below(64) as u8;
        if v.last() == Some(&s) {
            s = (s + 1) % 64;
        }
        v.push(s);
    }
    v
}

pub fn log_bs(rng: &mut Rng) -> u8 {
    match rng.below(6) {
        0 => 0,
        1 => 30,
        2 => rng.below(6) as u8,
        _ => rng.below(31) as u8,
    }
}

pub fn model_raw(rng: &mut Rng, cap2: usize) -> Model {
    let (l1, l2) = (bh_len(rng, 64), bh_len(rng, cap2));
    Model { log_bs: log_bs(rng), bh1: bh_raw(rng, l1), bh2: bh_raw(rng, l2) }
}

pub fn model_norm(rng: &mut Rng, cap2: usize) -> Model {
    Model { log_bs: log_bs(rng), bh1: bh_norm(rng, 64), bh2: bh_norm(rng, cap2) }
}

/// A string derived from `s` by a few edits (keeps it within `max`); not necessarily normalized.
pub fn mutate_bh(rng: &mut Rng, s: &[u8], max: usize) -> Vec<u8> {
    let mut v = s.to_vec();
    for _ in 0..rng.range(0, 4) {
        match rng.below(6) {
            0 if !v.is_empty() => {
                let i = rng.range(0, v.len() - 1);
                v.remove(i);
            }
            1 if v.len() < max => {
                let i = rng.range(0, v.len());
                v.insert(i, rng.below(64) as u8);
            }
            2 if !v.is_empty() => {
                let i = rng.range(0, v.len() - 1);
                v[i] = rng.below(64) as u8;
            }
            3 if !v.is_empty() => {
                let k = rng.range(0, v.len() - 1);
                v.rotate_left(k);
            }
            4 if !v.is_empty() => {
                // cut a prefix or a suffix
                let k = rng.range(0, v.len() - 1);
                if rng.chance(1, 2) {
                    v.drain(..k);
                } else {
                    v.truncate(v.len() - k);
                }
            }
            _ => {
                // insert a short run
                if v.len() + 3 <= max {
                    let i = rng.range(0, v.len());
                    let c = rng.below(64) as u8;
                    for _ in 0..3 {
                        v.insert(i, c);
                    }
                }
            }
        }
    }
    v.truncate(max);
    v
}

/// A normalized model related to `a`: edits, crossing block hashes, near block sizes.
pub fn related_norm(rng: &mut Rng, a: &Model, cap2: usize) -> Model {
    let norm = |v: Vec<u8>, max: usize| {
        let mut c = oracle::collapse(&v);
        c.truncate(max);
        c
    };
    match rng.below(8) {
        0 => a.clone(),
        1 if a.log_bs < 30 => {
            // b.bh1 ~ a.bh2 at the double block size
            Model { log_bs: a.log_bs + 1, bh1: norm(mutate_bh(rng, &a.bh2, 64), 64), bh2: bh_norm(rng, cap2) }
        }
        2 if a.log_bs > 0 => {
            Model { log_bs: a.log_bs - 1, bh1: bh_norm(rng, 64), bh2: norm(mutate_bh(rng, &a.bh1, cap2), cap2) }
        }
        3 => {
            let d = rng.range(0, 4) as i32 - 2;
            let l = (a.log_bs as i32 + d).clamp(0, 30) as u8;
            Model { log_bs: l, bh1: norm(mutate_bh(rng, &a.bh1, 64), 64), bh2: norm(mutate_bh(rng, &a.bh2, cap2), cap2) }
        }
        4 => Model { log_bs: a.log_bs, bh1: a.bh1.clone(), bh2: norm(mutate_bh(rng, &a.bh2, cap2), cap2) },
        5 => Model { log_bs: a.log_bs, bh1: norm(mutate_bh(rng, &a.bh1, 64), 64), bh2: a.bh2.clone() },
        _ => Model { log_bs: a.log_bs, bh1: norm(mutate_bh(rng, &a.bh1, 64), 64), bh2: norm(mutate_bh(rng, &a.bh2, cap2), cap2) },
    }
}

pub fn b64_text(s: &[u8]) -> Vec<u8> {
    s.iter().map(|&x| B64[x as usize]).collect()
}

/// Block-size field of every spelling class.
pub fn block_size_field(rng: &mut Rng) -> Vec<u8> {
    let valid = 3u64 << rng.below(31);
    let s: String = match rng.below(16) {
        0 => String::new(),
        1 => "0".into(),
        2 => format!("0{}", valid),
        3 => "00".into(),
        4 => format!("{}", valid + 1),
        5 => format!("{}", valid - 1),
        6 => format!("{}", 3u64 << 31),
        7 => "4294967296".into(),
        8 => "4294967295".into(),
        9 => "99999999999999999999999".into(),
        10 => format!("{}", rng.next() % 5000),
        11 => format!("+{}", valid),
        12 => format!("{}0", valid),
        13 => format!("{}", 1u64 << rng.below(33)),
        _ => format!("{}", valid),
    };
    s.into_bytes()
}

/// Grammar-derived text; block hashes may be longer than any capacity and contain long runs.
pub fn hash_text(rng: &mut Rng) -> Vec<u8> {
    let mut t = if rng.chance(3, 4) { format!("{}", 3u64 << log_bs(rng)).into_bytes() } else { block_size_field(rng) };
    t.push(b':');
    for part in 0..2 {
        let len = match rng.below(8) {
            0 => rng.range(0, 200),
            1 => *rng.pick(&[64usize, 65, 66, 67, 68, 69, 32, 33, 34, 35, 36]),
            2 => {
                // long raw, short after collapsing
                let target = *rng.pick(&[31usize, 32, 33, 63, 64, 65]);
                let mut v = bh_norm(rng, 64);
                v.truncate(target);
                let mut out = Vec::new();
                for (i, &c) in v.iter().enumerate() {
                    out.push(c);
                    // lengthen existing runs of three
                    if i >= 2 && v[i - 1] == c && v[i - 2] == c {
                        for _ in 0..rng.range(0, 20) {
                            out.push(c);
                        }
                    }
                }
                t.extend(b64_text(&out));
                if part == 0 {
                    t.push(b':');
                }
                continue;
            }
            _ => bh_len(rng, 64),
        };
        t.extend(b64_text(&bh_raw(rng, len)));
        if part == 0 {
            t.push(b':');
        }
    }
    match rng.below(6) {
        0 => t.extend_from_slice(b","),
        1 => t.extend_from_slice(b",file name, with: stuff\xff"),
        2 => t.extend_from_slice(b",\"a.txt\""),
        _ => {}
    }
    t
}

/// Byte-level mutation of a text.
pub fn mutate_text(rng: &mut Rng, t: &mut Vec<u8>) {
    const SPECIAL: &[u8] = b":,:,=-_ \0\n\xff\x80A/+9z0";
    // leading / trailing white space and line terminators (what a lenient text front end would strip)
    if rng.chance(1, 6) {
        const WS: &[&[u8]] = &[b"\n", b"\r\n", b" ", b"\t", b"  \n", b"\x0b", b"\x0c"];
        let w = *rng.pick(WS);
        if rng.chance(3, 4) {
            t.extend_from_slice(w);
        } else {
            let mut n = w.to_vec();
            n.extend_from_slice(t);
            *t = n;
        }
        if rng.chance(1, 2) {
            return;
        }
    }
    for _ in 0..rng.range(1, 3) {
        let c = if rng.chance(2, 3) { *rng.pick(SPECIAL) } else { rng.byte() };
        match rng.below(5) {
            0 => {
                let i = rng.range(0, t.len());
                t.insert(i, c);
            }
            1 if !t.is_empty() => {
                let i = rng.range(0, t.len() - 1);
                t.remove(i);
            }
            2 if !t.is_empty() => {
                let i = rng.range(0, t.len() - 1);
                t[i] = c;
            }
            3 if !t.is_empty() => {
                let i = rng.range(0, t.len() - 1);
                t.truncate(i);
            }
            _ => {
                // duplicate a character a few times (makes or lengthens a run)
                if !t.is_empty() {
                    let i = rng.range(0, t.len() - 1);
                    let ch = t[i];
                    for _ in 0..rng.range(1, 6) {
                        t.insert(i, ch);
                    }
                }
            }
        }
    }
}

// ---------------------------------------------------------------- overwriting used objects

/// A block hash that fills (nearly) the whole capacity and is rich in long runs.
pub fn bh_rich(rng: &mut Rng, cap: usize) -> Vec<u8> {
    let len = cap - *rng.pick(&[0usize, 0, 0, 1, 2, 5]);
    let mut out: Vec<u8> = Vec::with_capacity(len);
    while out.len() < len {
        let s = rng.below(64) as u8;
        let run = *rng.pick(&[1usize, 2, 4, 5, 7, 8, 9, 12, 13, 16, 17, 21, 33]);
        for _ in 0..run.min(len - out.len()) {
            out.push(s);
        }
    }
    out
}

/// First content of an object that is going to be overwritten: long block hashes, long runs,
/// block hash 2 beyond 32 symbols when the type allows it, a large block size.
pub fn model_rich(rng: &mut Rng, cap2: usize) -> Model {
    Model { log_bs: *rng.pick(&[30u8, 29, 17, 5]), bh1: bh_rich(rng, 64), bh2: bh_rich(rng, cap2) }
}

/// A small / edge-shaped block hash: empty, up to 3 symbols, exactly the capacity, a run at the very end.
pub fn bh_edge(rng: &mut Rng, cap: usize) -> Vec<u8> {
    let s = rng.below(64) as u8;
    let t = (s + 1 + rng.below(62) as u8) % 64;
    match rng.below(10) {
        0 | 1 => vec![],
        2 => vec![s],
        3 => vec![s, s],
        4 => vec![s, s, s],
        5 => vec![s, t, s],
        6 => (0..cap).map(|i| ((i * 5 + s as usize) % 64) as u8).collect(),
        7 => {
            // exactly the capacity, ending in a run
            let run = *rng.pick(&[4usize, 5, 8, 9]);
            let mut v: Vec<u8> = (0..cap - run).map(|i| ((i * 3 + t as usize) % 63) as u8).collect();
            let c = if v.last() == Some(&s) { (s + 1) % 64 } else { s };
            v.extend(std::iter::repeat(c).take(run));
            v
        }
        8 => {
            // short, a run at the very end
            let mut v = vec![t];
            v.extend(std::iter::repeat(s).take(rng.range(3, 7)));
            v
        }
        _ => (0..8).map(|i| (i + s % 50) as u8).collect(),
    }
}

/// Second content (what overwrites a used object): biased to the edge shapes, including
/// block hash 1 empty with block hash 2 non-empty.
pub fn model_second(rng: &mut Rng, cap2: usize) -> Model {
    let log = *rng.pick(&[0u8, 0, 1, 30, 12]);
    match rng.below(6) {
        0 => Model { log_bs: log, bh1: vec![], bh2: vec![] },
        1 => Model { log_bs: log, bh1: vec![], bh2: (0..8).collect() },
        2 => {
            let b = bh_edge(rng, 64);
            Model { log_bs: log, bh1: b, bh2: vec![] }
        }
        5 => model_raw(rng, cap2),
        _ => {
            let b1 = bh_edge(rng, 64);
            let b2 = bh_edge(rng, cap2);
            Model { log_bs: log, bh1: b1, bh2: b2 }
        }
    }
}

// ---------------------------------------------------------------- iterators with inexact size hints

/// Yields `data`; its size hint is allowed by the Iterator contract but not exact.
pub struct HintIter<'a> {
    data: &'a [u8],
    pos: usize,
    kind: u8,
    slack: usize,
}

impl Iterator for HintIter<'_> {
    type Item = u8;
    fn next(&mut self) -> Option<u8> {
        let b = self.data.get(self.pos).copied();
        if b.is_some() {
            self.pos += 1;
        }
        b
    }
    fn size_hint(&self) -> (usize, Option<usize>) {
        let rem = self.data.len() - self.pos;
        match self.kind {
            0 => (0, None),
            1 => (0, Some(rem + self.slack)),
            2 => (rem, Some(rem + self.slack)),
            3 => (rem / 2, None),
            _ => (0, Some(usize::MAX)),
        }
    }
}

/// An iterator over exactly the bytes of `data` whose size hint is inexact: filter,
/// take_while, skip_while, flat_map, chain of filtered parts, or a custom iterator with a
/// loose (but lawful) hint.  Returns the iterator and its name.
pub fn odd_iter<'a>(rng: &mut Rng, data: &'a [u8]) -> (Box<dyn Iterator<Item = u8> + 'a>, &'static str) {
    let flagged = |rng: &mut Rng, d: &[u8], junk_before: usize, junk_inside: usize, junk_after: usize| -> Vec<(u8, bool)> {
        let mut v: Vec<(u8, bool)> = Vec::with_capacity(d.len() + junk_before + junk_inside + junk_after);
        for _ in 0..junk_before {
            v.push((rng.byte(), false));
        }
        v.extend(d.iter().map(|&b| (b, true)));
        for _ in 0..junk_inside {
            let i = junk_before + rng.range(0, v.len() - junk_before);
            v.insert(i, (rng.byte(), false));
        }
        for _ in 0..junk_after {
            v.push((rng.byte(), false));
        }
        v
    };
    let few = *rng.pick(&[1usize, 2, 6, 7, 8, 9, 20, 100]);
    match rng.below(10) {
        k @ 0..=4 => {
            let names = ["custom iterator, size_hint (0, None)", "custom iterator, size_hint (0, Some(n+k))", "custom iterator, size_hint (n, Some(n+k))", "custom iterator, size_hint (n/2, None)", "custom iterator, size_hint (0, Some(usize::MAX))"];
            (Box::new(HintIter { data, pos: 0, kind: k as u8, slack: few }), names[k as usize])
        }
        5 => (Box::new(flagged(rng, data, 0, few, 0).into_iter().filter(|p| p.1).map(|p| p.0)), "filter (junk items removed)"),
        6 => (Box::new(flagged(rng, data, 0, 0, few).into_iter().take_while(|p| p.1).map(|p| p.0)), "take_while (junk items after the end)"),
        7 => (Box::new(flagged(rng, data, few, 0, 0).into_iter().skip_while(|p| !p.1).map(|p| p.0)), "skip_while (junk items before the start)"),
        8 => {
            let k = *rng.pick(&[1usize, 3, 7, 8, 64]);
            (Box::new(data.chunks(k).flat_map(|c| c.iter().copied())), "flat_map over chunks")
        }
        _ => {
            let mid = rng.range(0, data.len());
            let a = flagged(rng, &data[..mid], 0, few, 0);
            let b = flagged(rng, &data[mid..], 0, few, 0);
            (Box::new(a.into_iter().filter(|p| p.1).map(|p| p.0).chain(b.into_iter().filter(|p| p.1).map(|p| p.0))), "chain of two filtered parts")
        }
    }
}

// ---------------------------------------------------------------- asymmetric comparison shapes

/// A pair of normalized hashes in which the block hash that is NOT compared is short (0..6
/// symbols) or empty, while the compared ones have at least 7 symbols and share a 7-gram
/// (or only a 6-gram): NearLt (b has twice the block size: a.bh2 ~ b.bh1), NearGt (mirror),
/// NearEq (only one of the two pairs can match).
pub fn asym_pair(rng: &mut Rng, cap2: usize) -> (Model, Model) {
    let short = |rng: &mut Rng| -> Vec<u8> {
        let n = rng.range(0, 6);
        oracle::collapse(&(0..n).map(|_| rng.below(64) as u8).collect::<Vec<u8>>())
    };
    let long = |rng: &mut Rng, cap: usize| -> Vec<u8> {
        let n = rng.range(7, cap);
        let mut v = bh_norm(rng, cap);
        while v.len() < 7 {
            v = bh_norm(rng, cap);
        }
        v.truncate(n.max(7));
        v
    };
    // `y` shares a 7-gram with `x` (or, for a near miss, only 6 symbols of one)
    let sharing = |rng: &mut Rng, x: &[u8], cap: usize, miss: bool| -> Vec<u8> {
        let at = rng.range(0, x.len() - 7);
        let mut gram = x[at..at + 7].to_vec();
        if miss {
            let i = rng.range(0, 6);
            gram[i] = (gram[i] + 1 + rng.below(62) as u8) % 64;
        }
        let pre = rng.range(0, (cap - 7).min(10));
        let post = rng.range(0, (cap - 7 - pre).min(10));
        let mut y: Vec<u8> = (0..pre).map(|_| rng.below(64) as u8).collect();
        y.extend(gram);
        y.extend((0..post).map(|_| rng.below(64) as u8));
        let mut y = oracle::collapse(&y);
        y.truncate(cap);
        y
    };
    let miss = rng.chance(1, 4);
    let log = rng.below(30) as u8;
    let (a, b) = match rng.below(5) {
        0 | 1 => {
            // NearLt: a.bh1 short, a.bh2 ~ b.bh1; b.bh2 short or anything
            let a2 = long(rng, cap2);
            let b1 = sharing(rng, &a2, 64, miss);
            let b2 = if rng.chance(1, 2) { short(rng) } else { bh_norm(rng, cap2) };
            (Model { log_bs: log, bh1: short(rng), bh2: a2 }, Model { log_bs: log + 1, bh1: b1, bh2: b2 })
        }
        2 | 3 => {
            // NearGt: a.bh2 short, a.bh1 ~ b.bh2; b.bh1 short or anything
            let b2 = long(rng, cap2);
            let a1 = sharing(rng, &b2, 64, miss);
            let b1 = if rng.chance(1, 2) { short(rng) } else { bh_norm(rng, 64) };
            (Model { log_bs: log + 1, bh1: a1, bh2: short(rng) }, Model { log_bs: log, bh1: b1, bh2: b2 })
        }
        _ => {
            // NearEq: block hash 1 short on one or both sides, block hash 2 decides (or the other way round)
            let a2 = long(rng, cap2);
            let b2 = sharing(rng, &a2, cap2, miss);
            let m = (Model { log_bs: log, bh1: short(rng), bh2: a2 }, Model { log_bs: log, bh1: if rng.chance(1, 2) { short(rng) } else { bh_norm(rng, 64) }, bh2: b2 });
            if rng.chance(1, 2) {
                m
            } else {
                // swap the roles of the block hashes where the capacity allows
                let sw = |x: Model| if x.bh2.len() <= 64 && x.bh1.len() <= cap2 { Model { log_bs: x.log_bs, bh1: x.bh2, bh2: x.bh1 } } else { x };
                (sw(m.0), sw(m.1))
            }
        }
    };
    if rng.chance(1, 2) {
        (a, b)
    } else {
        (b, a)
    }
}

// ---------------------------------------------------------------- extreme rolling-hash values

/// Rolling-hash values at the edges of the trigger decode (h_org = value + 1, wrapping).
pub fn extreme_roll_values() -> Vec<u32> {
    let mut v: Vec<u32> = vec![
        0xFFFF_FFFE, 0xFFFF_FFFF, 0xFFFF_FFFD, 0xFFFF_FFFC, 0xFFFF_FFFB, 0, 1, 2, 5, 0x7FFF_FFFF, 0x8000_0000, 0x8000_0001,
        0xAAAA_AAA9, 0xAAAA_AAAA, 0xAAAA_AAAB, 0x5555_5554, 0x5555_5555, 0x5555_5556, 0xFFFF_FFFA, 0xFFFF_FFF8, 3, 4, 6, 8,
    ];
    for k in 0..=30u32 {
        let unit = 3u64 << k;
        v.push((unit - 1) as u32); // 3*2^k - 1
        let m = (1u64 << 32) / unit; // the largest multiple below 2^32
        v.push((unit * m - 1) as u32);
        if m > 1 {
            v.push((unit * (m - 1) - 1) as u32);
        }
    }
    v.sort_unstable();
    v.dedup();
    v
}

thread_local! {
    static EXTREME: std::cell::RefCell<Vec<(u32, [u8; 7])>> = std::cell::RefCell::new(Vec::new());
}

/// (rolling-hash value, a 7-byte window with that value), built once with a fixed seed.
pub fn extreme_words() -> Vec<(u32, [u8; 7])> {
    EXTREME.with(|t| {
        let mut t = t.borrow_mut();
        if t.is_empty() {
            let mut rng = Rng::new(0x5eed_0f_e87e3e);
            for val in extreme_roll_values() {
                if let Some(w) = word_for_roll_bounded(&mut rng, val, 1 << 21) {
                    t.push((val, w));
                }
            }
        }
        t.clone()
    })
}

/// An input made of such windows: alone, repeated, or embedded at random offsets in
/// random / zero / text filler.  The description names the windows used.
pub fn extreme_input(rng: &mut Rng) -> (Vec<u8>, String) {
    let table = extreme_words();
    // the values that matter most come first in the draw
    let pick = |rng: &mut Rng| -> (u32, [u8; 7]) {
        if rng.chance(1, 2) {
            let top = [0xFFFF_FFFEu32, 0xFFFF_FFFF, 0xFFFF_FFFD, 0xFFFF_FFFC, 0xFFFF_FFFB, 0, 1, 2];
            let want = *rng.pick(&top);
            if let Some(e) = table.iter().find(|e| e.0 == want) {
                return *e;
            }
        }
        *rng.pick(&table)
    };
    let mut used: Vec<String> = Vec::new();
    let mut note = |e: &(u32, [u8; 7])| {
        if used.len() < 6 {
            used.push(format!("{:#010x}={}", e.0, crate::util::hex(&e.1)));
        }
    };
    let mut out: Vec<u8> = Vec::new();
    let shape = rng.below(5);
    match shape {
        0 => {
            let e = pick(rng);
            note(&e);
            out.extend_from_slice(&e.1);
        }
        1 => {
            let e = pick(rng);
            note(&e);
            for _ in 0..rng.range(2, 70) {
                out.extend_from_slice(&e.1);
            }
        }
        _ => {
            let style = *rng.pick(&[0u8, 4, 5, 3, 1]);
            let n = rng.range(1, 40);
            for _ in 0..n {
                let gap = *rng.pick(&[0usize, 0, 1, 3, 6, 7, 8, 30, 200]);
                fill(rng, &mut out, gap, style);
                let e = pick(rng);
                note(&e);
                out.extend_from_slice(&e.1);
            }
            if rng.chance(1, 2) {
                let tail = rng.range(0, 300);
                fill(rng, &mut out, tail, style);
            }
        }
    }
    let desc = format!("windows with extreme rolling-hash values (value=window: {}{}), shape {}", used.join(", "), if used.len() == 6 { ", ..." } else { "" }, ["alone", "repeated", "embedded", "embedded", "embedded"][shape as usize]);
    (out, desc)
}
