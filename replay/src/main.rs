//! Concretiser for the ffuzzy verification framework (never decides anything).
//!
//! `replay <PROPERTY-ID> <seed:u64> <budget-seconds>` explores inputs for that property and
//! compares the real crate with an independent executable oracle.  On the first disagreement
//! it prints a block starting with `FAILING-INPUT property=<ID> check=<name>`; otherwise its
//! last line is `explored <N> inputs, <M> distinct checks, no disagreement`.  Exit status 0
//! in both cases.  `replay --selftest [seconds-per-property]` runs every property.

// the crate exposes its primitives only through module paths that are marked deprecated
#![allow(deprecated)]
#![allow(clippy::type_complexity)]

mod gen;
mod oracle;
mod p_compare;
mod p_generate;
mod p_hashes;
mod p_text;
#[cfg(feature = "strict-parser")]
mod p_strict;
#[cfg(feature = "unchecked")]
mod p_unchecked;
mod types;
mod util;

use util::{Ctx, R};

const PROPERTIES: [&str; 20] = [
    "C01", "C02", "C03", "C04", "C05", "C06", "C07", "C08", "C09", "C10", "C11", "C12", "C13", "C14", "C15", "C16", "C17",
    "C18", "C19", "C20",
];

fn dispatch(pid: &str, ctx: &mut Ctx) -> Option<R> {
    Some(match pid {
        "C01" => p_generate::c01(ctx),
        "C02" => p_compare::c02(ctx),
        "C03" => p_generate::c03(ctx),
        "C04" => p_text::c04(ctx),
        "C05" => p_text::c05(ctx),
        "C06" => p_text::c06(ctx),
        "C07" => p_text::c07(ctx),
        "C08" => p_compare::c08(ctx),
        "C09" => p_compare::c09(ctx),
        "C10" => p_compare::c10(ctx),
        "C11" => p_text::c11(ctx),
        "C12" => p_generate::c12(ctx),
        "C13" => p_generate::c13(ctx),
        "C15" => p_text::c15(ctx),
        "C16" => p_text::c16(ctx),
        "C17" => p_compare::c17(ctx),
        "C18" => p_generate::c18(ctx),
        "C19" => p_hashes::c19(ctx),
        "C20" => p_compare::c20(ctx),
        // C14: feature sets cannot be switched at run time; what can be explored is what
        // exists only in a feature build: the `*_unchecked` entry points against their
        // checked twins (library feature `unchecked`), the strict parser against its
        // statement (library feature `strict-parser`)
        #[cfg(any(feature = "unchecked", feature = "strict-parser"))]
        "C14" => c14(ctx),
        // unknown ids: nothing to explore
        _ => return None,
    })
}

#[cfg(any(feature = "unchecked", feature = "strict-parser"))]
fn c14(ctx: &mut Ctx) -> R {
    #[cfg(all(feature = "unchecked", feature = "strict-parser"))]
    {
        let old = ctx.narrow(0.5);
        p_strict::c14_strict(ctx)?;
        ctx.restore(old);
        p_unchecked::c14(ctx)
    }
    #[cfg(all(feature = "unchecked", not(feature = "strict-parser")))]
    {
        p_unchecked::c14(ctx)
    }
    #[cfg(all(feature = "strict-parser", not(feature = "unchecked")))]
    {
        p_strict::c14_strict(ctx)
    }
}

/// Returns true when a disagreement was found (and printed).
fn run(pid: &str, seed: u64, budget: f64) -> bool {
    let mut ctx = Ctx::new(seed, budget);
    // a panic that escapes a property function is itself a disagreement with "never panics"
    let res = util::guard(|| dispatch(pid, &mut ctx));
    match res {
        Ok(None) => {
            if pid == "C14" {
                println!("explored 0 inputs, 0 distinct checks, no disagreement (library built without the unchecked feature and without the strict-parser feature)");
            } else {
                println!("explored 0 inputs, 0 distinct checks, no disagreement");
            }
            false
        }
        Ok(Some(Ok(()))) => {
            println!("explored {} inputs, {} distinct checks, no disagreement", ctx.explored, ctx.checks.len());
            false
        }
        Ok(Some(Err(f))) => {
            println!("FAILING-INPUT property={} check={}", pid, f.check);
            println!("{}", f.details);
            println!("(seed {}, found after {} inputs; rerun: replay {} {} {})", seed, ctx.explored, pid, seed, budget);
            true
        }
        Err(msg) => {
            println!("FAILING-INPUT property={} check=unexpected-panic", pid);
            println!("real code: PANICKED outside a guarded call: {}", msg);
            println!("oracle: the explored operations never panic");
            println!("(seed {}, after {} inputs; rerun: replay {} {} {})", seed, ctx.explored, pid, seed, budget);
            true
        }
    }
}

fn main() {
    util::install_quiet_panic_hook();
    let args: Vec<String> = std::env::args().collect();
    if args.len() >= 2 && args[1] == "--selftest" {
        let per: f64 = args.get(2).and_then(|s| s.parse().ok()).unwrap_or(2.0);
        let seed: u64 = args.get(3).and_then(|s| s.parse().ok()).unwrap_or(1);
        let mut bad = 0;
        for pid in PROPERTIES {
            print!("{}: ", pid);
            if run(pid, seed, per) {
                bad += 1;
            }
        }
        if bad == 0 {
            println!("selftest: no disagreement on any property");
        } else {
            println!("selftest: {} properties with a disagreement", bad);
            std::process::exit(1);
        }
        return;
    }
    if args.len() >= 2 && args[1] == "--extreme-words" {
        // the 7-byte windows with extreme rolling-hash values used by C01/C03/C13
        let want = gen::extreme_roll_values();
        let have = gen::extreme_words();
        for (val, w) in &have {
            println!("rolling hash {:#010x}  window {}", val, util::hex(w));
        }
        println!("{} of {} values reached", have.len(), want.len());
        return;
    }
    if args.len() < 2 {
        eprintln!("usage: replay <PROPERTY-ID> <seed> <budget-seconds> | replay --selftest [seconds] [seed]");
        std::process::exit(2);
    }
    let pid = args[1].as_str();
    let seed: u64 = args.get(2).and_then(|s| s.parse().ok()).unwrap_or(0);
    let budget: f64 = args.get(3).and_then(|s| s.parse().ok()).unwrap_or(20.0);
    run(pid, seed, budget);
}
