//! Executable reference semantics, written from the property statements (properties.jsonl),
//! deliberately the simple way; nothing here is taken from the crate under test.

pub const B64: &[u8; 64] = b"ABCDEFGHIJKLMNOPQRSTUVWXYZabcdefghijklmnopqrstuvwxyz0123456789+/";
pub const MAX_INPUT: u64 = 192u64 << 30; // 192 GiB

// ---------------------------------------------------------------- C19: primitives

/// Rolling hash of the trailing 7-byte window (bytes before the start count as zero).
pub fn roll_of_window(w: &[u8; 7]) -> u32 {
    let mut h1 = 0u32;
    let mut h2 = 0u32;
    let mut h3 = 0u32;
    for i in 0..7 {
        h1 = h1.wrapping_add(w[i] as u32);
        h2 = h2.wrapping_add((i as u32 + 1).wrapping_mul(w[i] as u32));
        h3 = (h3 << 5) ^ (w[i] as u32);
    }
    h1.wrapping_add(h2).wrapping_add(h3)
}

/// Rolling hash after the whole of `data` (from scratch: only the last seven bytes matter).
pub fn roll_after(data: &[u8]) -> u32 {
    let mut w = [0u8; 7];
    let n = data.len().min(7);
    w[7 - n..].copy_from_slice(&data[data.len() - n..]);
    roll_of_window(&w)
}

pub const FNV_INIT: u32 = 0x2802_1967;
pub const FNV_PRIME: u32 = 0x0100_0193;

pub fn fnv32(mut h: u32, data: &[u8]) -> u32 {
    for &c in data {
        h = h.wrapping_mul(FNV_PRIME) ^ (c as u32);
    }
    h
}

/// FNV-1 state after `n` zero bytes: h * prime^n.
pub fn fnv32_zeros(h: u32, mut n: u64) -> u32 {
    let mut base = FNV_PRIME;
    let mut acc = h;
    while n > 0 {
        if n & 1 == 1 {
            acc = acc.wrapping_mul(base);
        }
        base = base.wrapping_mul(base);
        n >>= 1;
    }
    acc
}

pub fn fnv6(data: &[u8]) -> u8 {
    (fnv32(FNV_INIT, data) & 63) as u8
}

// ---------------------------------------------------------------- C01/C13: CTPH

#[derive(Clone, Debug, PartialEq, Eq)]
pub struct Ctph {
    pub log_bs: u8,
    pub bh1: Vec<u8>,
    /// block hash 2, at most 32 symbols (default output)
    pub bh2_trunc: Vec<u8>,
    /// block hash 2, at most 64 symbols (non-truncated output)
    pub bh2_full: Vec<u8>,
}

/// ssdeep's hash of the input `0^zeros ++ data`, or None when it is larger than 192 GiB.
///
/// All levels are "kept" (nothing is eliminated, no size hint): a level is just the list of
/// its trigger positions.
pub fn ctph(zeros: u64, data: &[u8]) -> Option<Ctph> {
    let total = zeros + data.len() as u64;
    if total > MAX_INPUT {
        return None;
    }
    // trigger positions: (end offset in data, highest level that triggers there)
    let mut trig: Vec<(usize, u8)> = Vec::new();
    let mut w = [0u8; 7];
    for (i, &c) in data.iter().enumerate() {
        w.copy_within(1.., 0);
        w[6] = c;
        let v = roll_of_window(&w) as u64 + 1;
        if v % 3 == 0 && v <= u32::MAX as u64 {
            let mut lvl = 0u8;
            while lvl < 30 && v % (3u64 << (lvl + 1)) == 0 {
                lvl += 1;
            }
            trig.push((i + 1, lvl));
        }
    }
    let roll_end = roll_of_window(&w);
    let count = |n: u8| trig.iter().filter(|t| t.1 >= n).count();
    // block size from the input size ...
    let mut init = 0u8;
    while (192u64 << init) < total {
        init += 1;
    }
    // ... halved while block hash 1 has fewer than 32 pieces
    let mut bi = init;
    while bi > 0 && count(bi) < 32 {
        bi -= 1;
    }
    // FNV of data[start..end], including the zero prefix when the piece starts at the very start
    let piece = |start: usize, end: usize| -> u8 {
        let h0 = if start == 0 { fnv32_zeros(FNV_INIT, zeros) } else { FNV_INIT };
        (fnv32(h0, &data[start..end]) & 63) as u8
    };
    let digest = |n: u8, cap: usize| -> Vec<u8> {
        // level 31 (block size 3*2^31 > u32) never triggers
        let t: Vec<usize> = if n > 30 { vec![] } else { trig.iter().filter(|t| t.1 >= n).map(|t| t.0).collect() };
        let mut out = Vec::new();
        let mut start = 0usize;
        for &p in t.iter().take(cap - 1) {
            out.push(piece(start, p));
            start = p;
        }
        // the last slot absorbs the rest
        if roll_end != 0 {
            out.push(piece(start, data.len()));
        } else if t.len() >= cap {
            out.push(piece(start, *t.last().unwrap()));
        }
        out
    };
    Some(Ctph { log_bs: bi, bh1: digest(bi, 64), bh2_trunc: digest(bi + 1, 32), bh2_full: digest(bi + 1, 64) })
}

pub fn text_of(log_bs: u8, bh1: &[u8], bh2: &[u8]) -> String {
    let mut s = format!("{}:", 3u64 << log_bs);
    s.extend(bh1.iter().map(|&x| B64[x as usize] as char));
    s.push(':');
    s.extend(bh2.iter().map(|&x| B64[x as usize] as char));
    s
}

// ---------------------------------------------------------------- C04..C07: text form

/// A fuzzy hash as plain data: log2(block size / 3) and the two symbol strings.
#[derive(Clone, Debug, PartialEq, Eq, Hash)]
pub struct Model {
    pub log_bs: u8,
    pub bh1: Vec<u8>,
    pub bh2: Vec<u8>,
}

impl Model {
    pub fn text(&self) -> String {
        text_of(self.log_bs, &self.bh1, &self.bh2)
    }
    pub fn normalized(&self) -> Model {
        Model { log_bs: self.log_bs, bh1: collapse(&self.bh1), bh2: collapse(&self.bh2) }
    }
    pub fn is_normalized(&self) -> bool {
        *self == self.normalized()
    }
    /// documented order: block size, block hash 1 (lexicographic, prefix first), block hash 2
    pub fn order(&self, o: &Model) -> std::cmp::Ordering {
        self.log_bs.cmp(&o.log_bs).then_with(|| self.bh1.cmp(&o.bh1)).then_with(|| self.bh2.cmp(&o.bh2))
    }
}

/// Every run of more than three identical symbols becomes exactly three.
pub fn collapse(s: &[u8]) -> Vec<u8> {
    let mut out: Vec<u8> = Vec::new();
    for &c in s {
        let n = out.len();
        if n >= 3 && out[n - 1] == c && out[n - 2] == c && out[n - 3] == c {
            continue;
        }
        out.push(c);
    }
    out
}

pub fn b64_index(c: u8) -> Option<u8> {
    B64.iter().position(|&x| x == c).map(|p| p as u8)
}

#[derive(Clone, Copy, Debug, PartialEq, Eq)]
pub enum EKind {
    Empty,
    LeadingZero,
    Invalid,
    TooLarge,
    TooLong,
    BadChar,
    /// strict parser only: exactly `capacity` characters followed by a character that is
    /// neither base64 nor a delimiter; the text is rejected, either kind is accepted
    BadCharOrTooLong,
    EndOfString,
}
#[derive(Clone, Copy, Debug, PartialEq, Eq)]
pub enum EOrigin {
    BlockSize,
    BlockHash1,
    BlockHash2,
}
#[derive(Clone, Copy, Debug, PartialEq, Eq)]
pub struct RefErr(pub EKind, pub EOrigin, pub usize);

/// Is the library under test built with its `strict-parser` feature?
pub const STRICT: bool = cfg!(feature = "strict-parser");

/// Reference parser of the build under test (default or strict).
pub fn ref_parse(t: &[u8], cap2: usize, norm: bool) -> Result<(Model, usize), RefErr> {
    ref_parse_mode(t, cap2, norm, STRICT)
}

/// Reference parser for `<block size>:<base64>*:<base64>*[,<anything>]`.
/// `norm`: the collapsed symbols are returned (normalising types), otherwise the raw symbols.
/// Default parser: the capacity is counted on what is stored (after run-collapsing for the
/// normalising types).  Strict parser: differs only by rejecting every text whose RAW block
/// hash is longer than the capacity, whatever the type.  Returns the end index (the comma
/// or the end of the text).
pub fn ref_parse_mode(t: &[u8], cap2: usize, norm: bool, strict: bool) -> Result<(Model, usize), RefErr> {
    use EKind::*;
    use EOrigin::*;
    // block size, canonical decimal
    let mut i = 0usize;
    let mut val: u128 = 0;
    loop {
        match t.get(i) {
            None => return Err(RefErr(EndOfString, BlockSize, t.len())),
            Some(&c) if c.is_ascii_digit() => {
                if i == 0 && c == b'0' {
                    return Err(RefErr(LeadingZero, BlockSize, 0));
                }
                val = (val * 10 + (c - b'0') as u128).min(1u128 << 100);
                i += 1;
            }
            Some(&b':') => break,
            Some(_) => return Err(RefErr(BadChar, BlockSize, i)),
        }
    }
    if i == 0 {
        return Err(RefErr(Empty, BlockSize, 0));
    }
    if val > u32::MAX as u128 {
        return Err(RefErr(TooLarge, BlockSize, 0));
    }
    let log_bs = match (0u8..31).find(|&n| (3u128 << n) == val) {
        Some(n) => n,
        None => return Err(RefErr(Invalid, BlockSize, 0)),
    };
    i += 1;
    // a block hash: base64 characters up to a delimiter; returns symbols, end, raw length
    let block = |mut i: usize, cap: usize, origin: EOrigin| -> Result<(Vec<u8>, usize, usize), RefErr> {
        let mut out: Vec<u8> = Vec::new();
        let mut raw = 0usize;
        while let Some(s) = t.get(i).and_then(|&c| b64_index(c)) {
            if strict && raw == cap {
                return Err(RefErr(TooLong, origin, i));
            }
            let n = out.len();
            let dropped = norm && n >= 3 && out[n - 1] == s && out[n - 2] == s && out[n - 3] == s;
            if !dropped {
                if n == cap {
                    return Err(RefErr(TooLong, origin, i));
                }
                out.push(s);
            }
            raw += 1;
            i += 1;
        }
        Ok((out, i, raw))
    };
    let bad = |raw: usize, cap: usize| if strict && raw == cap { BadCharOrTooLong } else { BadChar };
    let (bh1, j, raw1) = block(i, 64, BlockHash1)?;
    match t.get(j) {
        None => return Err(RefErr(EndOfString, BlockHash1, j)),
        Some(&b':') => {}
        Some(&b',') => return Err(RefErr(BadChar, BlockHash1, j)),
        Some(_) => return Err(RefErr(bad(raw1, 64), BlockHash1, j)),
    }
    let (bh2, k, raw2) = block(j + 1, cap2, BlockHash2)?;
    match t.get(k) {
        None | Some(&b',') => Ok((Model { log_bs, bh1, bh2 }, k)),
        Some(&b':') => Err(RefErr(BadChar, BlockHash2, k)),
        Some(_) => Err(RefErr(bad(raw2, cap2), BlockHash2, k)),
    }
}

// ---------------------------------------------------------------- C08/C09/C02: comparison

/// Longest common subsequence, textbook DP.
pub fn lcs(a: &[u8], b: &[u8]) -> usize {
    let mut prev = vec![0usize; b.len() + 1];
    for i in 1..=a.len() {
        let mut cur = vec![0usize; b.len() + 1];
        for j in 1..=b.len() {
            cur[j] = if a[i - 1] == b[j - 1] { prev[j - 1] + 1 } else { prev[j].max(cur[j - 1]) };
        }
        prev = cur;
    }
    prev[b.len()]
}

pub fn edit_distance(a: &[u8], b: &[u8]) -> u32 {
    (a.len() + b.len() - 2 * lcs(a, b)) as u32
}

/// Do the strings share a contiguous substring of 7 symbols?
pub fn has7(a: &[u8], b: &[u8]) -> bool {
    if a.len() < 7 || b.len() < 7 {
        return false;
    }
    a.windows(7).any(|x| b.windows(7).any(|y| x == y))
}

pub fn raw_score(l1: usize, l2: usize, d: u32) -> u32 {
    let d = d as u64;
    (100 - (100 * ((64 * d) / (l1 + l2) as u64)) / 64) as u32
}

/// Score of two block hashes at effective log block size `n` (0..=31).
pub fn score_strings(a: &[u8], b: &[u8], n: u8) -> u32 {
    if !has7(a, b) {
        return 0;
    }
    let s = raw_score(a.len(), b.len(), edit_distance(a, b)) as u64;
    // (block size / 3) * min(l1, l2); at least 100 from 48 upward, so it only bites below
    let cap = (1u64 << n) * a.len().min(b.len()) as u64;
    s.min(cap) as u32
}

/// fuzzy_compare on two normalized hashes.
pub fn compare(a: &Model, b: &Model) -> u32 {
    let (x, y) = (a.log_bs as i32, b.log_bs as i32);
    if x == y {
        if a.bh1 == b.bh1 && a.bh2 == b.bh2 {
            return 100;
        }
        score_strings(&a.bh1, &b.bh1, a.log_bs).max(score_strings(&a.bh2, &b.bh2, a.log_bs + 1))
    } else if x + 1 == y {
        score_strings(&a.bh2, &b.bh1, b.log_bs)
    } else if y + 1 == x {
        score_strings(&a.bh1, &b.bh2, a.log_bs)
    } else {
        0
    }
}

/// 7-symbol windows as (effective log block size, base-64 number).
pub fn index_windows(m: &Model) -> Vec<u64> {
    let enc = |w: &[u8], n: u64| w.iter().fold(0u64, |acc, &s| acc * 64 + s as u64) + (n << 42);
    let mut v: Vec<u64> = Vec::new();
    if m.bh1.len() >= 7 {
        v.extend(m.bh1.windows(7).map(|w| enc(w, m.log_bs as u64)));
    }
    if m.bh2.len() >= 7 {
        v.extend(m.bh2.windows(7).map(|w| enc(w, m.log_bs as u64 + 1)));
    }
    v
}

pub fn is_candidate(a: &Model, b: &Model) -> bool {
    let wa = index_windows(a);
    let wb = index_windows(b);
    wa.iter().any(|x| wb.contains(x))
}
