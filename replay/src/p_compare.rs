//! C02, C08, C09, C10, C17, C20: comparison.

use crate::gen;
use crate::oracle::{self, collapse, Model};
use crate::types::*;
use crate::util::{guard, Ctx, Fail, R};
use ssdeep::internal_comparison::{
    block_hash_position_array_element, BlockHashPositionArray, BlockHashPositionArrayData, BlockHashPositionArrayImpl,
};
use ssdeep::{block_size, BlockSizeRelation, DualFuzzyHash, FuzzyHash, FuzzyHashCompareTarget, LongDualFuzzyHash, LongFuzzyHash};

fn sym(s: &[u8]) -> String {
    format!("\"{}\" (symbols {:?})", String::from_utf8_lossy(&gen::b64_text(s)), s)
}

/// All strings over 0..k of length lo..=hi.
fn all_strings(k: u8, lo: usize, hi: usize) -> Vec<Vec<u8>> {
    let mut out = Vec::new();
    for len in lo..=hi {
        let total = (k as u64).pow(len as u32);
        for mut x in 0..total {
            let mut s = Vec::with_capacity(len);
            for _ in 0..len {
                s.push((x % k as u64) as u8);
                x /= k as u64;
            }
            out.push(s);
        }
    }
    out
}

/// Structured pair of strings (up to 64 symbols) for edit distance / substring checks.
fn pair(ctx: &mut Ctx) -> (Vec<u8>, Vec<u8>) {
    let la = gen::bh_len(&mut ctx.rng, 64);
    let a = gen::bh_raw(&mut ctx.rng, la);
    let b = match ctx.rng.below(7) {
        0 => {
            let lb = gen::bh_len(&mut ctx.rng, 64);
            gen::bh_raw(&mut ctx.rng, lb)
        }
        1 => {
            // shifted copy
            let mut b = a.clone();
            if !b.is_empty() {
                let k = ctx.rng.range(0, b.len() - 1);
                b.rotate_left(k);
            }
            b
        }
        2 => {
            // copy with a prefix dropped and new symbols appended
            let k = ctx.rng.range(0, a.len());
            let mut b = a[k..].to_vec();
            while b.len() < a.len() {
                b.push(ctx.rng.below(64) as u8);
            }
            b
        }
        3 => a.iter().rev().copied().collect(),
        _ => gen::mutate_bh(&mut ctx.rng, &a, 64),
    };
    if ctx.rng.chance(1, 2) {
        (a, b)
    } else {
        (b, a)
    }
}

// ---------------------------------------------------------------- C08

fn c08_pair(ctx: &mut Ctx, pa: &mut BlockHashPositionArray, a: &[u8], b: &[u8]) -> R {
    ctx.input();
    let want = oracle::edit_distance(a, b);
    let input = || format!("a = {}\nb = {}", sym(a), sym(b));
    let got = ctx.nopanic("edit-distance-never-panics", || {
        pa.init_from(a);
        let ab = pa.edit_distance(b);
        pa.init_from(b);
        let ba = pa.edit_distance(a);
        (ab, ba)
    }, input)?;
    ctx.check("edit-distance-vs-lcs-dp", got.0 == want && got.1 == want, || {
        format!(
            "{}\nreal code: position array of a .edit_distance(b) = {}, of b .edit_distance(a) = {}\noracle: |a|+|b|-2*LCS = {}+{}-2*{} = {}",
            input(), got.0, got.1, a.len(), b.len(), oracle::lcs(a, b), want
        )
    })
}

/// One step of a history on ONE comparison target: load `m` (init_from, or a new object by
/// From), then observe the string functions of target.block_hash_1()/block_hash_2() against
/// the DP / naive oracles on the CURRENT hash.
pub fn target_history_step(ctx: &mut Ctx, target: &mut FuzzyHashCompareTarget, m: &Model, history: &mut Vec<String>) -> R {
    ctx.input();
    let via_from = ctx.rng.chance(1, 5);
    history.push(format!("{}({})", if via_from { "From" } else { "init_from" }, m.text()));
    if history.len() > 6 {
        history.remove(0);
    }
    let long = m.bh2.len() > 32 || ctx.rng.chance(1, 2);
    let mut xs: Vec<Vec<u8>> = vec![m.bh1.clone(), m.bh2.clone(), vec![], gen::mutate_bh(&mut ctx.rng, &m.bh1, 64), gen::mutate_bh(&mut ctx.rng, &m.bh2, 64)];
    let l = gen::bh_len(&mut ctx.rng, 64);
    xs.push(gen::bh_raw(&mut ctx.rng, l));
    // other hashes to score against: itself, relatives, something unrelated
    let mut others: Vec<Model> = vec![m.clone(), gen::related_norm(&mut ctx.rng, m, 64), gen::related_norm(&mut ctx.rng, m, 64)];
    others.push(gen::model_norm(&mut ctx.rng, 64));
    let input = || format!("history of one target object (latest last): {}\ncurrent hash {}", history.join(" ; "), m.text());
    let obs = ctx.nopanic("reused-target-string-functions-never-panic", || {
        if long {
            let h = LongFuzzyHash::of(m);
            if via_from { *target = FuzzyHashCompareTarget::from(&h) } else { target.init_from(&h) }
        } else {
            let h = FuzzyHash::of(m);
            if via_from { *target = FuzzyHashCompareTarget::from(h) } else { target.init_from(&h) }
        }
        let (b1, b2) = (target.block_hash_1(), target.block_hash_2());
        let head = (b1.is_valid(), b2.is_valid(), b1.len() as usize, b2.len() as usize, target.is_valid(), target.log_block_size());
        // validity first (C11), Debug formatting of the object, identity with a fresh target
        let fresh = FuzzyHashCompareTarget::from(&LongFuzzyHash::of(m));
        let dbg_ok = !format!("{:?}", target).is_empty() && format!("{:?}", target) == format!("{:?}", fresh);
        let same = (target.full_eq(&fresh), dbg_ok);
        if !(head.0 && head.1 && head.4) {
            // the checked string functions assert validity: report the invalid object, not their panic
            return (head, Vec::new(), same, Vec::new());
        }
        let mut rows = Vec::new();
        for x in &xs {
            rows.push((b1.edit_distance(x), b2.edit_distance(x), b1.has_common_substring(x), b2.has_common_substring(x), b1.is_equiv(x), b2.is_equiv(x)));
        }
        // scores and candidate answers: reused == fresh == reference
        let mut scores = Vec::new();
        for o in &others {
            let oh = LongFuzzyHash::of(o);
            scores.push((target.compare(&oh), fresh.compare(&oh), target.is_comparison_candidate(&oh), fresh.is_comparison_candidate(&oh), target.is_equiv(&oh)));
        }
        (head, rows, same, scores)
    }, input)?;
    let head_ok = obs.0 == (true, true, m.bh1.len(), m.bh2.len(), true, m.log_bs);
    ctx.check("reused-target-position-arrays", head_ok, || {
        format!("{}\nreal code: (block_hash_1().is_valid, block_hash_2().is_valid, len 1, len 2, target.is_valid, log_block_size) = {:?}\noracle: (true, true, {}, {}, true, {})", input(), obs.0, m.bh1.len(), m.bh2.len(), m.log_bs)
    })?;
    ctx.check("reused-target-identical-to-fresh", obs.2 == (true, true), || {
        format!("{}\nreal code: full_eq(fresh target) = {}, Debug text equal to the fresh target's = {}\noracle: a re-initialised target is indistinguishable from a fresh one", input(), obs.2 .0, obs.2 .1)
    })?;
    for (o, sc) in others.iter().zip(&obs.3) {
        let want = (oracle::compare(m, o), oracle::compare(m, o), oracle::is_candidate(m, o), oracle::is_candidate(m, o), m == o);
        ctx.check("reused-target-score-equals-fresh-and-reference", *sc == want, || {
            format!(
                "{}\nother hash {}\nreal code: (reused.compare, fresh.compare, reused.is_comparison_candidate, fresh.is_comparison_candidate, reused.is_equiv) = {:?}\noracle (fuzzy_compare / shared 7-gram windows / same hash): {:?}",
                input(), o.text(), sc, want
            )
        })?;
    }
    for (x, row) in xs.iter().zip(&obs.1) {
        let want = (oracle::edit_distance(&m.bh1, x), oracle::edit_distance(&m.bh2, x), oracle::has7(&m.bh1, x), oracle::has7(&m.bh2, x), m.bh1 == *x, m.bh2 == *x);
        ctx.check("reused-target-edit-distance-and-substring", *row == want, || {
            format!(
                "{}\nother string {}\nreal code: block_hash_1()/block_hash_2() (edit_distance 1, edit_distance 2, has_common_substring 1, 2, is_equiv 1, 2) = {:?}\noracle (LCS DP / naive 7-gram search on the current hash): {:?}",
                input(), sym(x), row, want
            )
        })?;
    }
    Ok(())
}

/// Next hash of a target history: empty block hash 1 with non-empty block hash 2, empty/empty,
/// long/long, then something different.
pub fn history_model(ctx: &mut Ctx, step: u32) -> Model {
    match step % 6 {
        0 => {
            // like the parsed text "3::ABCDEFGHIJKL"
            let off = ctx.rng.below(50) as u8;
            Model { log_bs: gen::log_bs(&mut ctx.rng), bh1: vec![], bh2: (0..12).map(|i| i + off).collect() }
        }
        1 => gen::model_norm(&mut ctx.rng, 64),
        2 => Model { log_bs: 0, bh1: vec![], bh2: vec![] },
        3 => gen::model_rich(&mut ctx.rng, 64).normalized(),
        4 => {
            let mut m = gen::model_rich(&mut ctx.rng, 32);
            m.bh1 = gen::bh_norm(&mut ctx.rng, 64);
            while m.bh1.len() < 60 {
                m.bh1.push((m.bh1.len() % 61) as u8);
            }
            m.bh2 = m.bh1[..32].to_vec();
            m.normalized()
        }
        _ => gen::model_second(&mut ctx.rng, 32).normalized(),
    }
}

pub fn c08(ctx: &mut Ctx) -> R {
    let mut pa = BlockHashPositionArray::new();
    // histories on one reused comparison target first (cheap), and again between the random pairs
    let mut target = FuzzyHashCompareTarget::new();
    let mut history: Vec<String> = Vec::new();
    for step in 0..24u32 {
        let m = history_model(ctx, step);
        target_history_step(ctx, &mut target, &m, &mut history)?;
    }
    // exhaustive over small alphabets
    for (k, hi) in [(2u8, 6usize), (3, 4)] {
        let all = all_strings(k, 0, hi);
        for a in &all {
            if !ctx.alive() {
                return Ok(());
            }
            for b in &all {
                c08_pair(ctx, &mut pa, a, b)?;
            }
        }
    }
    let mut step = 0u32;
    while ctx.alive() {
        step += 1;
        if step % 8 == 0 {
            let which = ctx.rng.below(6) as u32;
            let m = history_model(ctx, which);
            target_history_step(ctx, &mut target, &m, &mut history)?;
        }
        let (a, b) = pair(ctx);
        c08_pair(ctx, &mut pa, &a, &b)?;
        // carry chains: long runs at length 63/64
        if ctx.rng.chance(1, 8) {
            let n = *ctx.rng.pick(&[62usize, 63, 64]);
            let c = ctx.rng.below(64) as u8;
            let a: Vec<u8> = std::iter::repeat(c).take(n).collect();
            let lb = gen::bh_len(&mut ctx.rng, 64);
            let mut b = gen::bh_raw(&mut ctx.rng, lb);
            for x in b.iter_mut() {
                if ctx.rng.chance(1, 2) {
                    *x = c;
                }
            }
            c08_pair(ctx, &mut pa, &a, &b)?;
        }
    }
    Ok(())
}

// ---------------------------------------------------------------- C09

fn c09_pair(ctx: &mut Ctx, pa: &mut BlockHashPositionArray, a: &[u8], b: &[u8]) -> R {
    ctx.input();
    let want = oracle::has7(a, b);
    let input = || format!("a = {}\nb = {}", sym(a), sym(b));
    let got = ctx.nopanic("common-substring-never-panics", || {
        pa.init_from(a);
        let ab = pa.has_common_substring(b);
        pa.init_from(b);
        let ba = pa.has_common_substring(a);
        (ab, ba)
    }, input)?;
    ctx.check("common-substring-vs-naive", got.0 == want && got.1 == want, || {
        format!(
            "{}\nreal code: position array of a .has_common_substring(b) = {}, of b .has_common_substring(a) = {}\noracle (naive search for a shared 7-symbol substring): {}",
            input(), got.0, got.1, want
        )
    })
}

pub fn c09(ctx: &mut Ctx) -> R {
    let mut pa = BlockHashPositionArray::new();
    // the pre-filter as the comparison target applies it: asymmetric shapes (the block hash that
    // is not compared is shorter than 7), and the string functions of a reused target
    let mut target = FuzzyHashCompareTarget::new();
    let mut history: Vec<String> = Vec::new();
    for step in 0..200u32 {
        let cap2 = if step % 2 == 0 { 32 } else { 64 };
        let (a, b) = gen::asym_pair(&mut ctx.rng, cap2);
        c10_pair(ctx, &a, &b)?;
        if step % 8 == 0 {
            let m = history_model(ctx, step / 8);
            target_history_step(ctx, &mut target, &m, &mut history)?;
        }
    }
    // a shared 7-gram planted at every pair of offsets, and near misses of length 6
    for (la, lb) in [(7usize, 7usize), (8, 13), (20, 21), (64, 64), (64, 9), (33, 64)] {
        for oa in 0..=la - 7 {
            for ob in 0..=lb - 7 {
                if !ctx.alive() {
                    return Ok(());
                }
                // disjoint alphabets so that nothing else is shared
                let mut a: Vec<u8> = (0..la).map(|i| (i % 20) as u8).collect();
                let mut b: Vec<u8> = (0..lb).map(|i| (20 + i % 20) as u8).collect();
                let gram: Vec<u8> = (0..7).map(|i| 50 + ((oa + ob + i) % 7) as u8).collect();
                a[oa..oa + 7].copy_from_slice(&gram);
                b[ob..ob + 7].copy_from_slice(&gram);
                c09_pair(ctx, &mut pa, &a, &b)?;
                // near miss: only 6 in common
                let k = ctx.rng.range(0, 6);
                b[ob + k] = 63;
                c09_pair(ctx, &mut pa, &a, &b)?;
            }
        }
    }
    // exhaustive over a binary alphabet, lengths 7..=9
    let all = all_strings(2, 7, 9);
    let mut i = 0usize;
    'ex: for a in &all {
        for b in &all {
            i += 1;
            if i % 4096 == 0 && !ctx.alive() {
                break 'ex;
            }
            c09_pair(ctx, &mut pa, a, b)?;
        }
    }
    while ctx.alive() {
        let (a, b) = pair(ctx);
        c09_pair(ctx, &mut pa, &a, &b)?;
        let cap2 = if ctx.rng.chance(1, 2) { 32 } else { 64 };
        let (a, b) = gen::asym_pair(&mut ctx.rng, cap2);
        c10_pair(ctx, &a, &b)?;
        // repeated / overlapping occurrences over a low-entropy alphabet
        let la = ctx.rng.range(7, 64);
        let lb = ctx.rng.range(7, 64);
        let k = ctx.rng.range(2, 3) as u64;
        let a: Vec<u8> = (0..la).map(|_| ctx.rng.below(k) as u8).collect();
        let b: Vec<u8> = (0..lb).map(|_| ctx.rng.below(k) as u8).collect();
        c09_pair(ctx, &mut pa, &a, &b)?;
    }
    Ok(())
}

// ---------------------------------------------------------------- C17

fn naive_has_sequences(x: u64, len: u32) -> bool {
    if len == 0 {
        return true;
    }
    if len > 64 {
        return false;
    }
    (0..=(64 - len)).any(|s| (0..len).all(|i| (x >> (s + i)) & 1 == 1))
}

fn c17_posarray(ctx: &mut Ctx, pa: &mut BlockHashPositionArray, s: &[u8], others: &[Vec<u8>]) -> R {
    let input = || format!("string {} loaded into a previously used position array", sym(s));
    let obs = ctx.nopanic("position-array-never-panics", || {
        pa.init_from(s);
        let mut fresh = BlockHashPositionArray::new();
        fresh.init_from(s);
        let rep_ok = (0..64usize).all(|c| (0..64usize).all(|i| ((pa.representation()[c] >> i) & 1 == 1) == (i < s.len() && s[i] as usize == c)));
        let equiv_others: Vec<bool> = others.iter().map(|o| pa.is_equiv(o)).collect();
        let answers_same = others.iter().all(|o| {
            pa.edit_distance(o) == fresh.edit_distance(o) && pa.has_common_substring(o) == fresh.has_common_substring(o)
        });
        (pa.is_valid(), *pa == fresh, pa.len() as usize, pa.is_empty(), pa.is_equiv(s), pa.is_valid_and_normalized(), rep_ok, equiv_others, answers_same)
    }, input)?;
    let want_norm = collapse(s) == s;
    let equiv_ok = obs.7.iter().zip(others).all(|(&e, o)| e == (o.as_slice() == s));
    ctx.check("position-array-represents-string", obs.0 && obs.1 && obs.2 == s.len() && obs.3 == s.is_empty() && obs.4 && obs.5 == want_norm && obs.6 && equiv_ok && obs.8, || {
        format!(
            "{}\nreal code: is_valid={}, ==fresh {}, len={}, is_empty={}, is_equiv(itself)={}, is_valid_and_normalized={}, bit representation exact={}, is_equiv(other strings)={:?}, same answers as fresh={}\noracle: valid, equal to a fresh array, len {}, equivalent to itself only, normalized={}\nother strings: {:?}",
            input(), obs.0, obs.1, obs.2, obs.3, obs.4, obs.5, obs.6, obs.7, obs.8, s.len(), want_norm, others
        )
    })
}

fn c17_target<T: Plain + AsRef<T>>(
    ctx: &mut Ctx,
    target: &mut FuzzyHashCompareTarget,
    m: &Model,
    others: &[Model],
    init: &dyn Fn(&mut FuzzyHashCompareTarget, &T),
    fresh_of: &dyn Fn(&T) -> FuzzyHashCompareTarget,
    ops: &dyn Fn(&FuzzyHashCompareTarget, &T) -> (u32, bool, bool),
) -> R {
    let input = || format!("hash {} ({}) loaded into a previously used FuzzyHashCompareTarget", m.text(), T::NAME);
    let obs = ctx.nopanic("compare-target-never-panics", || {
        let h = T::of(m);
        init(target, &h);
        let fresh = fresh_of(&h);
        let mut same = true;
        let mut equiv = Vec::new();
        let mut scores = Vec::new();
        for o in others {
            let oh = T::of(o);
            let a = ops(target, &oh);
            let b = ops(&fresh, &oh);
            same &= a == b;
            equiv.push(a.2);
            scores.push(a.0);
        }
        let self_ops = ops(target, &h);
        let b1 = target.block_hash_1();
        let b2 = target.block_hash_2();
        let parts = b1.is_valid() && b2.is_valid() && b1.len() as usize == m.bh1.len() && b2.len() as usize == m.bh2.len() && b1.is_equiv(&m.bh1) && b2.is_equiv(&m.bh2);
        (target.is_valid(), target.full_eq(&fresh), target.log_block_size(), target.block_size(), same, equiv, scores, self_ops, parts)
    }, input)?;
    let equiv_ok = obs.5.iter().zip(others).all(|(&e, o)| e == (o == m));
    let scores_ok = obs.6.iter().zip(others).all(|(&s, o)| s == oracle::compare(m, o));
    ctx.check(
        "reused-target-equals-fresh",
        obs.0 && obs.1 && obs.2 == m.log_bs && obs.3 as u64 == 3u64 << m.log_bs && obs.4 && equiv_ok && scores_ok && obs.7 .0 == 100 && obs.7 .2 && obs.8,
        || {
            format!(
                "{}\nreal code: is_valid={}, full_eq(fresh)={}, log_block_size={}, same (score, candidate, is_equiv) answers as fresh={}, is_equiv(others)={:?}, scores={:?}, against itself (score, candidate, is_equiv)={:?}, position arrays match the block hashes={}\noracle: valid, identical to a fresh target, equivalent to itself only, scores {:?}\nothers: {:?}",
                input(), obs.0, obs.1, obs.2, obs.4, obs.5, obs.6, obs.7, obs.8,
                others.iter().map(|o| oracle::compare(m, o)).collect::<Vec<_>>(),
                others.iter().map(|o| o.text()).collect::<Vec<_>>()
            )
        },
    )
}

pub fn c17(ctx: &mut Ctx) -> R {
    let mut pa = BlockHashPositionArray::new();
    let mut target = FuzzyHashCompareTarget::new();
    // a fresh position array / target represents the empty string / hash
    ctx.check("fresh-objects", pa.is_valid() && pa.len() == 0 && pa.is_equiv(&[]) && target.is_valid() && target.is_equiv(&FuzzyHash::new()), || {
        "real code: a new position array / comparison target is not the valid empty one\noracle: new() represents the empty string / the hash 3::".to_string()
    })?;
    let mut round = 0u32;
    while ctx.alive() {
        round += 1;
        ctx.input();
        // position array
        // long and run-rich, then tiny / edge-shaped, then free: the object is reused throughout
        let s = match round % 3 {
            0 => gen::bh_rich(&mut ctx.rng, 64),
            1 => gen::bh_edge(&mut ctx.rng, 64),
            _ => {
                let l = gen::bh_len(&mut ctx.rng, 64);
                gen::bh_raw(&mut ctx.rng, l)
            }
        };
        let mut others = vec![s.clone(), gen::mutate_bh(&mut ctx.rng, &s, 64)];
        let mut t = s.clone();
        t.push(0);
        t.truncate(64);
        others.push(t);
        let mut t = s.clone();
        t.pop();
        others.push(t);
        if round % 5 == 0 {
            pa.clear();
            let cleared = pa.is_valid() && pa.len() == 0 && pa.is_equiv(&[]) && pa == BlockHashPositionArray::new();
            ctx.check("clear-gives-empty", cleared, || "real code: clear() did not give the valid empty position array\noracle: identical to new()".to_string())?;
        }
        c17_posarray(ctx, &mut pa, &s, &others)?;
        // comparison target (short and long hashes alternate on the same object)
        let short = round % 2 == 0;
        let cap2 = if short { 32 } else { 64 };
        let m = match round % 6 {
            0 | 1 => gen::model_rich(&mut ctx.rng, cap2).normalized(),
            2 | 3 => gen::model_second(&mut ctx.rng, cap2).normalized(),
            _ => gen::model_norm(&mut ctx.rng, cap2),
        };
        let mut os = vec![m.clone()];
        for _ in 0..3 {
            os.push(gen::related_norm(&mut ctx.rng, &m, cap2));
        }
        if short {
            c17_target::<FuzzyHash>(ctx, &mut target, &m, &os,
                &|t, h| if h.block_hash_1_len() % 2 == 0 { t.init_from(h) } else { t.init_from(&DualFuzzyHash::from(*h)) },
                &|h| FuzzyHashCompareTarget::from(h),
                &|t, o| (t.compare(o), t.is_comparison_candidate(o), t.is_equiv(o)))?;
        } else {
            c17_target::<LongFuzzyHash>(ctx, &mut target, &m, &os,
                &|t, h| t.init_from(h),
                &|h| if h.block_hash_2_len() % 2 == 0 { FuzzyHashCompareTarget::from(*h) } else { FuzzyHashCompareTarget::from(&LongDualFuzzyHash::from(*h)) },
                &|t, o| (t.compare(o), t.is_comparison_candidate(o), t.is_equiv(o)))?;
        }
        // the run detector used by the normalization test
        let x = match ctx.rng.below(4) {
            0 => ctx.rng.next(),
            1 => ctx.rng.next() | ctx.rng.next() | ctx.rng.next(),
            2 => (!0u64 >> ctx.rng.below(64)) << ctx.rng.below(64),
            _ => !0u64 ^ (1u64 << ctx.rng.below(64)),
        };
        for len in 0..=66u32 {
            let got = block_hash_position_array_element::has_sequences(x, len);
            ctx.check("has_sequences-vs-naive", got == naive_has_sequences(x, len), || {
                format!("element {:#018x}, length {}\nreal code: has_sequences = {}\noracle (is there a run of that many consecutive one bits): {}", x, len, got, !got)
            })?;
        }
    }
    Ok(())
}

// ---------------------------------------------------------------- C02

fn c02_pair(ctx: &mut Ctx, target: &mut FuzzyHashCompareTarget, a: &Model, b: &Model) -> R {
    ctx.input();
    let want = oracle::compare(a, b);
    let input = || format!("a = {}\nb = {}", a.text(), b.text());
    let short = a.bh2.len() <= 32 && b.bh2.len() <= 32;
    let obs = ctx.nopanic("compare-never-panics", || {
        let mut v: Vec<(&'static str, u32)> = Vec::new();
        v.push(("ssdeep::compare(text, text)", ssdeep::compare(&a.text(), &b.text()).unwrap_or(9999)));
        let (la, lb) = (LongFuzzyHash::of(a), LongFuzzyHash::of(b));
        v.push(("LongFuzzyHash::compare", la.compare(&lb)));
        v.push(("LongFuzzyHash::compare(dual)", la.compare(&LongDualFuzzyHash::from(lb))));
        target.init_from(&la);
        v.push(("reused target (long).compare", target.compare(&lb)));
        v.push(("reused target (long).compare(dual)", target.compare(&LongDualFuzzyHash::from(lb))));
        v.push(("target from dual .compare", FuzzyHashCompareTarget::from(LongDualFuzzyHash::from(la)).compare(&lb)));
        if a != b {
            v.push(("LongFuzzyHash::compare_unequal", la.compare_unequal(&lb)));
            v.push(("target.compare_unequal", target.compare_unequal(&lb)));
        }
        match block_size::compare_sizes(a.log_bs, b.log_bs) {
            BlockSizeRelation::NearEq => {
                v.push(("target.compare_near_eq", target.compare_near_eq(&lb)));
                if a != b {
                    v.push(("target.compare_unequal_near_eq", target.compare_unequal_near_eq(&lb)));
                }
            }
            BlockSizeRelation::NearLt => v.push(("target.compare_unequal_near_lt", target.compare_unequal_near_lt(&lb))),
            BlockSizeRelation::NearGt => v.push(("target.compare_unequal_near_gt", target.compare_unequal_near_gt(&lb))),
            BlockSizeRelation::Far => {}
        }
        if short {
            let (sa, sb) = (FuzzyHash::of(a), FuzzyHash::of(b));
            v.push(("FuzzyHash::compare", sa.compare(&sb)));
            v.push(("FuzzyHash::compare(dual)", sa.compare(&DualFuzzyHash::from(sb))));
            target.init_from(&sa);
            v.push(("reused target (short).compare", target.compare(&sb)));
            v.push(("fresh target.compare", FuzzyHashCompareTarget::from(&sa).compare(&sb)));
            if a != b {
                v.push(("FuzzyHash::compare_unequal", sa.compare_unequal(&sb)));
            }
        }
        v
    }, input)?;
    for (entry, got) in &obs {
        ctx.check("score-vs-fuzzy_compare", *got == want, || {
            format!("{}\nentry point: {}\nreal code: {}\noracle (ssdeep's fuzzy_compare): {}", input(), entry, got, want)
        })?;
    }
    // block-hash level
    let obs = ctx.nopanic("compare-never-panics", || {
        let mut pa = BlockHashPositionArray::new();
        pa.init_from(&a.bh1);
        (pa.score_strings(&b.bh1, a.log_bs), pa.score_strings_raw(&b.bh1))
    }, input)?;
    let want_s = oracle::score_strings(&a.bh1, &b.bh1, a.log_bs);
    let want_raw = oracle::score_strings(&a.bh1, &b.bh1, 31);
    ctx.check("score_strings-vs-reference", obs.0 == want_s && obs.1 == want_raw, || {
        format!(
            "block hashes {} and {}, log block size {}\nreal code: score_strings = {}, score_strings_raw = {}\noracle: {}, {}",
            sym(&a.bh1), sym(&b.bh1), a.log_bs, obs.0, obs.1, want_s, want_raw
        )
    })
}

pub fn c02(ctx: &mut Ctx) -> R {
    let mut target = FuzzyHashCompareTarget::new();
    // parse errors of the string function name the side
    let e = ssdeep::compare("x", "3::");
    let f = ssdeep::compare("3::", "3:::");
    ctx.check("string-compare-error-side", matches!(&e, Err(x) if x.side() == ssdeep::ParseErrorSide::Left) && matches!(&f, Err(x) if x.side() == ssdeep::ParseErrorSide::Right), || {
        format!("real code: compare(\"x\",\"3::\") = {:?}, compare(\"3::\",\"3:::\") = {:?}\noracle: a parse error naming the left / right operand", e, f)
    })?;
    // a second target object that lives through a history of re-initialisations
    let mut htarget = FuzzyHashCompareTarget::new();
    let mut history: Vec<String> = Vec::new();
    let mut step = 0u32;
    while ctx.alive() {
        let which = if ctx.rng.chance(1, 3) { ctx.rng.below(6) as u32 } else { step };
        step += 1;
        let hm = history_model(ctx, which);
        target_history_step(ctx, &mut htarget, &hm, &mut history)?;
        let cap2 = if ctx.rng.chance(1, 2) { 32 } else { 64 };
        let a = gen::model_norm(&mut ctx.rng, cap2);
        let b = if ctx.rng.chance(1, 8) { gen::model_norm(&mut ctx.rng, cap2) } else { gen::related_norm(&mut ctx.rng, &a, cap2) };
        c02_pair(ctx, &mut target, &a, &b)?;
        // raw (not normalized) texts through the string function
        if ctx.rng.chance(1, 4) {
            let ra = gen::model_raw(&mut ctx.rng, cap2);
            let mut rb = ra.clone();
            rb.bh1 = gen::mutate_bh(&mut ctx.rng, &ra.bh1, 64);
            rb.bh2 = gen::mutate_bh(&mut ctx.rng, &ra.bh2, cap2);
            if ctx.rng.chance(1, 3) && rb.log_bs < 30 {
                rb.log_bs += 1;
                std::mem::swap(&mut rb.bh1, &mut rb.bh2);
                rb.bh2.truncate(cap2);
            }
            ctx.input();
            let want = oracle::compare(&ra.normalized(), &rb.normalized());
            let got = ctx.nopanic("compare-never-panics", || ssdeep::compare(&ra.text(), &rb.text()).unwrap_or(9999), || format!("a = {}\nb = {}", ra.text(), rb.text()))?;
            ctx.check("string-compare-normalizes-first", got == want, || {
                format!("a = {}\nb = {}\nreal code: ssdeep::compare = {}\noracle (normalize, then fuzzy_compare): {}", ra.text(), rb.text(), got, want)
            })?;
        }
    }
    Ok(())
}

// ---------------------------------------------------------------- C10

fn c10_windows<T: Plain>(ctx: &mut Ctx, m: &Model, obs: (Vec<Vec<u8>>, Vec<u64>, Vec<u64>, Vec<Vec<u8>>, Vec<u64>, Vec<u64>, [usize; 4])) -> R {
    let enc = |w: &[u8]| w.iter().fold(0u64, |acc, &s| acc * 64 + s as u64);
    let w1: Vec<Vec<u8>> = if m.bh1.len() >= 7 { m.bh1.windows(7).map(|w| w.to_vec()).collect() } else { vec![] };
    let w2: Vec<Vec<u8>> = if m.bh2.len() >= 7 { m.bh2.windows(7).map(|w| w.to_vec()).collect() } else { vec![] };
    let n1: Vec<u64> = w1.iter().map(|w| enc(w)).collect();
    let n2: Vec<u64> = w2.iter().map(|w| enc(w)).collect();
    let i1: Vec<u64> = n1.iter().map(|&x| x | ((m.log_bs as u64) << 42)).collect();
    let i2: Vec<u64> = n2.iter().map(|&x| x | ((m.log_bs as u64 + 1) << 42)).collect();
    let ok = obs.0 == w1 && obs.1 == n1 && obs.2 == i1 && obs.3 == w2 && obs.4 == n2 && obs.5 == i2 && obs.6 == [n1.len(), i1.len(), n2.len(), i2.len()];
    ctx.check("windows-vs-base64-encoding", ok, || {
        format!(
            "hash {} ({})\nreal code: block hash 1 windows {:?}\n numeric {:?}\n index {:?}\n block hash 2 windows {:?}\n numeric {:?}\n index {:?}\n reported lengths {:?}\noracle: numeric {:?}\n index {:?}\n block hash 2 numeric {:?}\n index {:?}",
            m.text(), T::NAME, obs.0, obs.1, obs.2, obs.3, obs.4, obs.5, obs.6, n1, i1, n2, i2
        )
    })
}

fn c10_pair(ctx: &mut Ctx, a: &Model, b: &Model) -> R {
    ctx.input();
    let input = || format!("a = {}\nb = {}", a.text(), b.text());
    let short = a.bh2.len() <= 32 && b.bh2.len() <= 32;
    let obs = ctx.nopanic("compare-never-panics", || {
        let (la, lb) = (LongFuzzyHash::of(a), LongFuzzyHash::of(b));
        let ta = FuzzyHashCompareTarget::from(&la);
        let tb = FuzzyHashCompareTarget::from(&lb);
        let mut cand = vec![ta.is_comparison_candidate(&lb)];
        match block_size::compare_sizes(a.log_bs, b.log_bs) {
            BlockSizeRelation::NearEq => cand.push(ta.is_comparison_candidate_near_eq(&lb)),
            BlockSizeRelation::NearLt => cand.push(ta.is_comparison_candidate_near_lt(&lb)),
            BlockSizeRelation::NearGt => cand.push(ta.is_comparison_candidate_near_gt(&lb)),
            BlockSizeRelation::Far => {}
        }
        if short {
            cand.push(FuzzyHashCompareTarget::from(&FuzzyHash::of(a)).is_comparison_candidate(&FuzzyHash::of(b)));
        }
        (la.compare(&lb), lb.compare(&la), la.compare(&la), cand, tb.is_comparison_candidate(&la), ta.compare(&lb), tb.compare(&la))
    }, input)?;
    let far = (a.log_bs as i32 - b.log_bs as i32).abs() > 1;
    let cand_want = oracle::is_candidate(a, b);
    ctx.check("score-laws", obs.0 <= 100 && obs.0 == obs.1 && obs.2 == 100 && (!far || obs.0 == 0) && obs.5 == obs.0 && obs.6 == obs.0, || {
        format!(
            "{}\nreal code: compare(a,b)={}, compare(b,a)={}, compare(a,a)={}, target forms {} / {}\noracle: within 0..=100, symmetric, 100 against itself{}",
            input(), obs.0, obs.1, obs.2, obs.5, obs.6, if far { ", 0 because the block sizes are far apart" } else { "" }
        )
    })?;
    ctx.check("candidate-iff-windows-intersect", obs.3.iter().all(|&c| c == cand_want) && obs.4 == cand_want, || {
        format!(
            "{}\nreal code: is_comparison_candidate forms (a vs b) = {:?}, (b vs a) = {}\noracle (do the index-window sets intersect): {}",
            input(), obs.3, obs.4, cand_want
        )
    })?;
    ctx.check("nonzero-iff-equal-or-candidate", (obs.0 != 0) == (a == b || cand_want), || {
        format!("{}\nreal code: score {}\noracle: non-zero exactly when a == b ({}) or the candidate test holds ({})", input(), obs.0, a == b, cand_want)
    })
}

pub fn c10(ctx: &mut Ctx) -> R {
    // all 31 x 31 block-size combinations on one related pair of contents
    let base = Model { log_bs: 0, bh1: (1..=40).collect(), bh2: (10..=30).collect() };
    for x in 0..31u8 {
        for y in 0..31u8 {
            if !ctx.alive() {
                return Ok(());
            }
            let a = Model { log_bs: x, ..base.clone() };
            let b = Model { log_bs: y, bh1: base.bh2.clone(), bh2: base.bh1[..32].to_vec() };
            c10_pair(ctx, &a, &b)?;
            let c = Model { log_bs: y, bh1: base.bh1.clone(), bh2: vec![] };
            c10_pair(ctx, &a, &c)?;
        }
    }
    while ctx.alive() {
        let cap2 = if ctx.rng.chance(1, 2) { 32 } else { 64 };
        let mut a = gen::model_norm(&mut ctx.rng, cap2);
        if ctx.rng.chance(1, 4) {
            a.log_bs = 30 - ctx.rng.below(2) as u8;
        }
        let b = if ctx.rng.chance(1, 8) { gen::model_norm(&mut ctx.rng, cap2) } else { gen::related_norm(&mut ctx.rng, &a, cap2) };
        c10_pair(ctx, &a, &b)?;
        let (x, y) = gen::asym_pair(&mut ctx.rng, cap2);
        c10_pair(ctx, &x, &y)?;
        // windows
        let input = || format!("hash {}", a.text());
        if cap2 == 32 {
            let obs = ctx.nopanic("windows-never-panic", || {
                let h = FuzzyHash::of(&a);
                (
                    h.block_hash_1_windows().map(|w| w.to_vec()).collect::<Vec<_>>(),
                    h.block_hash_1_numeric_windows().collect::<Vec<_>>(),
                    h.block_hash_1_index_windows().collect::<Vec<_>>(),
                    h.block_hash_2_windows().map(|w| w.to_vec()).collect::<Vec<_>>(),
                    h.block_hash_2_numeric_windows().collect::<Vec<_>>(),
                    h.block_hash_2_index_windows().collect::<Vec<_>>(),
                    [h.block_hash_1_numeric_windows().len(), h.block_hash_1_index_windows().len(), h.block_hash_2_numeric_windows().len(), h.block_hash_2_index_windows().len()],
                )
            }, input)?;
            c10_windows::<FuzzyHash>(ctx, &a, obs)?;
        } else {
            let obs = ctx.nopanic("windows-never-panic", || {
                let h = LongFuzzyHash::of(&a);
                (
                    h.block_hash_1_windows().map(|w| w.to_vec()).collect::<Vec<_>>(),
                    h.block_hash_1_numeric_windows().collect::<Vec<_>>(),
                    h.block_hash_1_index_windows().collect::<Vec<_>>(),
                    h.block_hash_2_windows().map(|w| w.to_vec()).collect::<Vec<_>>(),
                    h.block_hash_2_numeric_windows().collect::<Vec<_>>(),
                    h.block_hash_2_index_windows().collect::<Vec<_>>(),
                    [h.block_hash_1_numeric_windows().len(), h.block_hash_1_index_windows().len(), h.block_hash_2_numeric_windows().len(), h.block_hash_2_index_windows().len()],
                )
            }, input)?;
            c10_windows::<LongFuzzyHash>(ctx, &a, obs)?;
        }
    }
    Ok(())
}

// ---------------------------------------------------------------- C20

fn ref_valid(bs: u32) -> bool {
    (0..31).any(|n| bs as u64 == 3u64 << n)
}

pub fn c20(ctx: &mut Ctx) -> R {
    ctx.check("constants", block_size::MIN == 3 && block_size::NUM_VALID == 31, || {
        format!("real code: block_size::MIN = {}, NUM_VALID = {}\noracle: 3, 31", block_size::MIN, block_size::NUM_VALID)
    })?;
    // logarithms: all u8
    for n in 0..=255u8 {
        ctx.input();
        let want = if n < 31 { Some(3u32 << n) } else { None };
        let got = block_size::from_log(n);
        ctx.check("from_log", got == want && block_size::is_log_valid(n) == (n < 31), || {
            format!("log block size {}\nreal code: from_log = {:?}, is_log_valid = {}\noracle: {:?}, {}", n, got, block_size::is_log_valid(n), want, n < 31)
        })?;
        if let Some(bs) = want {
            let back = guard(|| block_size::log_from_valid(bs));
            ctx.check("log_from_valid", back == Ok(n) && block_size::is_valid(bs), || {
                format!("block size {}\nreal code: is_valid = {}, log_from_valid = {:?}\noracle: true, {}", bs, block_size::is_valid(bs), back, n)
            })?;
            // canonical decimal form, both directions
            let t = format!("{}::", bs);
            let h = guard(|| FuzzyHash::new_from_internals(bs, &[], &[]).to_string());
            let p = FuzzyHash::from_bytes(t.as_bytes()).map(|x| (x.block_size(), x.log_block_size()));
            ctx.check("canonical-decimal-form", h.as_deref() == Ok(t.as_str()) && p == Ok((bs, n)), || {
                format!("block size {}\nreal code: prints as {:?}, \"{}\" parses to (block size, log) {:?}\noracle: \"{}\", ({}, {})", bs, h, t, p, t, bs, n)
            })?;
        }
    }
    // relations: all 31 x 31
    for a in 0..31u8 {
        for b in 0..31u8 {
            ctx.input();
            let d = b as i32 - a as i32;
            let rel = block_size::compare_sizes(a, b);
            let want_rel = match d {
                0 => BlockSizeRelation::NearEq,
                1 => BlockSizeRelation::NearLt,
                -1 => BlockSizeRelation::NearGt,
                _ => BlockSizeRelation::Far,
            };
            let got = (block_size::is_near(a, b), block_size::is_near_eq(a, b), block_size::is_near_lt(a, b), block_size::is_near_gt(a, b), rel, rel.is_near(), block_size::cmp(a, b));
            let want = (d.abs() <= 1, d == 0, d == 1, d == -1, want_rel, d.abs() <= 1, a.cmp(&b));
            ctx.check("block-size-relations", got == want, || {
                format!(
                    "log block sizes {} and {} (block sizes {} and {})\nreal code: (is_near, is_near_eq, is_near_lt, is_near_gt, compare_sizes, is_near(), cmp) = {:?}\noracle (equal / double / half / otherwise): {:?}",
                    a, b, 3u32 << a, 3u32 << b, got, want
                )
            })?;
            // the same through hash objects
            let (ha, hb) = (FuzzyHash::new_from_internals(3 << a, &[], &[]), FuzzyHash::new_from_internals(3 << b, &[], &[]));
            let got2 = (FuzzyHash::is_block_sizes_near(&ha, &hb), FuzzyHash::is_block_sizes_near_eq(&ha, &hb), FuzzyHash::is_block_sizes_near_lt(&ha, &hb), FuzzyHash::is_block_sizes_near_gt(&ha, &hb), FuzzyHash::compare_block_sizes(&ha, &hb), ha.cmp_by_block_size(&hb));
            ctx.check("block-size-relations-on-hashes", got2 == (want.0, want.1, want.2, want.3, want.4, want.6), || {
                format!("block sizes {} and {}\nreal code: {:?}\noracle: {:?}", 3u32 << a, 3u32 << b, got2, (want.0, want.1, want.2, want.3, want.4, want.6))
            })?;
        }
    }
    // score cap: all (n, l1, l2)
    ctx.check("capping-border", FuzzyHashCompareTarget::LOG_BLOCK_SIZE_CAPPING_BORDER == 4, || {
        format!("real code: LOG_BLOCK_SIZE_CAPPING_BORDER = {}\noracle: 4 (2^4*7 >= 100 > 2^3*7)", FuzzyHashCompareTarget::LOG_BLOCK_SIZE_CAPPING_BORDER)
    })?;
    for n in 0..=31u8 {
        for l1 in 0..=64u8 {
            for l2 in 0..=64u8 {
                ctx.input();
                let got = guard(|| FuzzyHashCompareTarget::score_cap_on_block_hash_comparison(n, l1, l2));
                let ok = match got {
                    Ok(c) => if n < 4 { c == (1u32 << n) * l1.min(l2) as u32 } else { c >= 100 },
                    Err(_) => false,
                };
                ctx.check("score-cap", ok, || {
                    format!("log block size {}, lengths {} and {}\nreal code: score_cap_on_block_hash_comparison = {:?}\noracle: {}", n, l1, l2, got,
                        if n < 4 { format!("2^{}*min = {}", n, (1u32 << n) * l1.min(l2) as u32) } else { "at least 100".to_string() })
                })?;
            }
        }
    }
    // raw score: all (l1, l2, d) in the domain
    for l1 in 7..=64u8 {
        for l2 in 7..=64u8 {
            for d in 0..=(l1 as u32 + l2 as u32 - 14) {
                ctx.input();
                let got = guard(|| FuzzyHashCompareTarget::raw_score_by_edit_distance(l1, l2, d));
                let want = oracle::raw_score(l1 as usize, l2 as usize, d);
                ctx.check("raw-score", got == Ok(want) && (1..=100).contains(&want), || {
                    format!("lengths {} and {}, edit distance {}\nreal code: raw_score_by_edit_distance = {:?}\noracle: 100 - floor(100*floor(64*d/(l1+l2))/64) = {}", l1, l2, d, got, want)
                })?;
            }
        }
        if !ctx.alive() {
            break;
        }
    }
    // validity of block sizes: neighbours of every valid value and of powers of two, then a sweep
    let mut probe: Vec<u32> = vec![0, 1, 2, u32::MAX, u32::MAX - 1];
    for n in 0..32u32 {
        for k in [1u64, 3, 5, 6, 9] {
            let c = k << n;
            for d in -2i64..=2 {
                let v = c as i64 + d;
                if (0..=u32::MAX as i64).contains(&v) {
                    probe.push(v as u32);
                }
            }
        }
    }
    for &bs in &probe {
        ctx.input();
        let got = block_size::is_valid(bs);
        ctx.check("is_valid-block-size", got == ref_valid(bs), || {
            format!("block size {}\nreal code: is_valid = {}\noracle (is it 3*2^n for some n < 31): {}", bs, got, ref_valid(bs))
        })?;
        if !ref_valid(bs) {
            let r = guard(|| block_size::log_from_valid(bs));
            ctx.check("log_from_valid-rejects-invalid", r.is_err(), || {
                format!("block size {} (not valid)\nreal code: log_from_valid returned {:?}\noracle: out of contract, panics", bs, r)
            })?;
        }
    }
    // all u32, in a seed-dependent order of residue classes, as far as the budget allows
    let stride = 4099u32;
    let start = (ctx.seed % stride as u64) as u32;
    for k in 0..stride {
        if !ctx.alive() {
            break;
        }
        let first = (start + k) % stride;
        let mut bs = first as u64;
        while bs <= u32::MAX as u64 {
            let v = bs as u32;
            if block_size::is_valid(v) != ref_valid(v) {
                ctx.checks.insert("is_valid-block-size");
                return Err(Fail {
                    check: "is_valid-block-size",
                    details: format!("block size {}\nreal code: is_valid = {}\noracle (is it 3*2^n for some n < 31): {}", v, block_size::is_valid(v), ref_valid(v)),
                });
            }
            bs += stride as u64;
        }
        ctx.explored += (u32::MAX / stride) as u64;
    }
    Ok(())
}
