//! C01, C03, C12, C13, C18: the generator against the reference CTPH.

use crate::gen;
use crate::oracle::{self, text_of, Ctph};
use crate::util::{guard, show_bytes, Ctx, Fail, R};
use ssdeep::{Generator, GeneratorError, GeneratorOrIOError, LongRawFuzzyHash, RawFuzzyHash};

fn show_short(r: &Result<RawFuzzyHash, GeneratorError>) -> String {
    match r {
        Ok(h) => format!("Ok({}) valid={}", h, h.is_valid()),
        Err(e) => format!("Err({:?})", e),
    }
}
fn show_long(r: &Result<LongRawFuzzyHash, GeneratorError>) -> String {
    match r {
        Ok(h) => format!("Ok({}) valid={}", h, h.is_valid()),
        Err(e) => format!("Err({:?})", e),
    }
}

/// First difference between what `g` returns and the reference hash of `0^zeros ++ data`
/// (None: they agree).  `declared_ok`: false when a wrong size was declared, so every
/// finalization has to fail with the size-mismatch error.
fn diff_generator(g: &Generator, zeros: u64, data: &[u8], declared_ok: bool) -> Option<(&'static str, String)> {
    let total = zeros + data.len() as u64;
    if g.input_size() != total {
        return Some(("input-size", format!("real code: input_size() = {}\noracle: {} bytes were fed", g.input_size(), total)));
    }
    let r_short = g.finalize();
    let r_long = g.finalize_without_truncation();
    let r_short_nt = g.finalize_raw::<false, 64, 32>();
    let r_long_tr = g.finalize_raw::<true, 64, 64>();
    if !declared_ok {
        let all = r_short == Err(GeneratorError::FixedSizeMismatch)
            && r_long == Err(GeneratorError::FixedSizeMismatch)
            && r_short_nt == Err(GeneratorError::FixedSizeMismatch)
            && r_long_tr == Err(GeneratorError::FixedSizeMismatch);
        if !all {
            return Some((
                "finalize-after-wrong-declared-size",
                format!(
                    "real code: finalize() = {}, finalize_without_truncation() = {}, finalize_raw<false,64,32> = {}, finalize_raw<true,64,64> = {}\noracle: all Err(FixedSizeMismatch)",
                    show_short(&r_short), show_long(&r_long), show_short(&r_short_nt), show_long(&r_long_tr)
                ),
            ));
        }
        return None;
    }
    let want: Ctph = match oracle::ctph(zeros, data) {
        Some(w) => w,
        None => {
            let all = r_short == Err(GeneratorError::InputSizeTooLarge) && r_long == Err(GeneratorError::InputSizeTooLarge);
            if !all {
                return Some((
                    "finalize-too-large",
                    format!(
                        "real code: finalize() = {}, finalize_without_truncation() = {}\noracle: Err(InputSizeTooLarge), the input has {} bytes > 192 GiB",
                        show_short(&r_short), show_long(&r_long), total
                    ),
                ));
            }
            return None;
        }
    };
    let t_short = text_of(want.log_bs, &want.bh1, &want.bh2_trunc);
    let t_long = text_of(want.log_bs, &want.bh1, &want.bh2_full);
    let ok_short = |r: &Result<RawFuzzyHash, GeneratorError>, bh2: &[u8]| match r {
        Ok(h) => h.is_valid() && h.log_block_size() == want.log_bs && h.block_hash_1() == &want.bh1[..] && h.block_hash_2() == bh2,
        Err(_) => false,
    };
    let ok_long = |r: &Result<LongRawFuzzyHash, GeneratorError>, bh2: &[u8]| match r {
        Ok(h) => h.is_valid() && h.log_block_size() == want.log_bs && h.block_hash_1() == &want.bh1[..] && h.block_hash_2() == bh2,
        Err(_) => false,
    };
    if !ok_short(&r_short, &want.bh2_trunc) {
        return Some(("finalize-vs-ctph", format!("real code: finalize() = {}\noracle (reference CTPH): {}", show_short(&r_short), t_short)));
    }
    if !ok_long(&r_long, &want.bh2_full) {
        return Some((
            "finalize-without-truncation-vs-ctph",
            format!("real code: finalize_without_truncation() = {}\noracle (reference CTPH): {}", show_long(&r_long), t_long),
        ));
    }
    if !ok_long(&r_long_tr, &want.bh2_trunc) {
        return Some((
            "finalize-raw-truncated-long-vs-ctph",
            format!("real code: finalize_raw::<true,64,64>() = {}\noracle (reference CTPH): {}", show_long(&r_long_tr), t_short),
        ));
    }
    if want.bh2_full.len() <= 32 {
        if !ok_short(&r_short_nt, &want.bh2_full) {
            return Some((
                "finalize-raw-short-nontruncated-vs-ctph",
                format!("real code: finalize_raw::<false,64,32>() = {}\noracle (reference CTPH): {}", show_short(&r_short_nt), t_long),
            ));
        }
    } else if r_short_nt != Err(GeneratorError::OutputOverflow) {
        return Some((
            "finalize-raw-short-nontruncated-overflow",
            format!(
                "real code: finalize_raw::<false,64,32>() = {}\noracle: Err(OutputOverflow), block hash 2 has {} symbols ({})",
                show_short(&r_short_nt), want.bh2_full.len(), t_long
            ),
        ));
    }
    let warn = total < 4097;
    if g.may_warn_about_small_input_size() != warn {
        return Some((
            "small-input-warning",
            format!("real code: may_warn_about_small_input_size() = {}\noracle: {} (size {} < 4097)", !warn, warn, total),
        ));
    }
    None
}

pub const GENERATOR_CHECKS: [&str; 8] = [
    "input-size", "finalize-vs-ctph", "finalize-without-truncation-vs-ctph", "finalize-raw-truncated-long-vs-ctph",
    "finalize-raw-short-nontruncated-vs-ctph", "finalize-raw-short-nontruncated-overflow", "small-input-warning", "generator-panic",
];

fn diff_oneshot(data: &[u8]) -> Option<(&'static str, String)> {
    match guard(|| {
        let mut g = Generator::new();
        g.update(data);
        diff_generator(&g, 0, data, true)
    }) {
        Ok(d) => d,
        Err(msg) => Some(("generator-panic", format!("real code: PANICKED: {}\noracle: update/finalize never panic", msg))),
    }
}

/// Greedy shrink of a failing input (bounded number of attempts).
fn shrink(data: &[u8], fails: &dyn Fn(&[u8]) -> bool) -> Vec<u8> {
    let mut cur = data.to_vec();
    let mut attempts = 0;
    let mut chunk = cur.len() / 2;
    while chunk >= 1 && attempts < 400 {
        let mut progressed = false;
        // drop from the end, then from the start, then inside
        let mut start = cur.len();
        while start >= chunk && attempts < 400 {
            start -= chunk;
            let mut cand = cur[..start].to_vec();
            cand.extend_from_slice(&cur[start + chunk..]);
            attempts += 1;
            if fails(&cand) {
                cur = cand;
                progressed = true;
                if start > cur.len() {
                    start = cur.len();
                }
            }
        }
        if !progressed || chunk > cur.len() {
            chunk /= 2;
        }
        chunk = chunk.min(cur.len());
    }
    cur
}

fn fail_oneshot(data: &[u8], desc: &str) -> Fail {
    let small = shrink(data, &|d| diff_oneshot(d).is_some());
    let (check, what) = diff_oneshot(&small).or_else(|| diff_oneshot(data)).unwrap();
    Fail {
        check,
        details: format!(
            "input (shrunk from {} [{} bytes]), fed with one update() call: {}\n{}",
            desc, data.len(), show_bytes(&small), what
        ),
    }
}

/// Pseudo-random bytes a human can regenerate: x <- x*1664525 + 1013904223 (u32, wrapping),
/// byte i = top 8 bits of x after the i-th step, x0 = seed.
fn lcg_bytes(seed: u32, n: usize) -> Vec<u8> {
    let mut x = seed;
    (0..n)
        .map(|_| {
            x = x.wrapping_mul(1664525).wrapping_add(1013904223);
            (x >> 24) as u8
        })
        .collect()
}

/// One input of a reuse history: (bytes, description from which it can be rebuilt).
fn history_input(ctx: &mut Ctx, rich: bool) -> (Vec<u8>, String) {
    if rich {
        // activates about ten levels, many of them with 32 pieces or more
        let n = *ctx.rng.pick(&[20_000usize, 60_000, 100_000, 100_000, 150_000, 400_000]) + ctx.rng.range(0, 999);
        let seed = ctx.rng.next() as u32;
        return (lcg_bytes(seed, n), format!("{} bytes from the LCG x<-x*1664525+1013904223 (u32), x0={}, byte=x>>24", n, seed));
    }
    match ctx.rng.below(9) {
        0 => {
            let n = *ctx.rng.pick(&[20_000usize, 6_001, 50_000, 12_289, 196_609, 1_000]);
            (vec![0u8; n], format!("{} zero bytes", n))
        }
        1 => {
            let n = *ctx.rng.pick(&[6_001usize, 20_000, 3_000, 100_000]);
            let mut d = vec![0u8; n];
            d.extend_from_slice(b"end of file\n");
            (d, format!("{} zero bytes + b\"end of file\\n\"", n))
        }
        2 => {
            let n = *ctx.rng.pick(&[6_000usize, 20_000, 40_000, 200_000]);
            let mut d = vec![0u8; n];
            d.push(1);
            (d, format!("{} zero bytes + one byte 0x01", n))
        }
        3 => (vec![], "the empty input".to_string()),
        4 => {
            let n = ctx.rng.range(1, 20);
            let seed = ctx.rng.next() as u32;
            let d = lcg_bytes(seed, n);
            let desc = format!("short: {}", show_bytes(&d));
            (d, desc)
        }
        5 => {
            // low entropy: one byte value repeated
            let n = *ctx.rng.pick(&[5_000usize, 30_000, 70_000]);
            let b = ctx.rng.byte();
            (vec![b; n], format!("{} bytes 0x{:02x}", n, b))
        }
        6 => {
            // periodic with a short period
            let n = *ctx.rng.pick(&[8_000usize, 25_000, 90_000]);
            let p = ctx.rng.range(2, 9);
            ((0..n).map(|i| (i % p) as u8).collect(), format!("{} bytes, byte i = i mod {}", n, p))
        }
        7 => {
            // sparse: zeros with a few adversarial trigger words (pieces only at a high level)
            let n = *ctx.rng.pick(&[10_000usize, 30_000, 100_000]);
            let lvl = ctx.rng.range(3, 12) as u8;
            let pieces = ctx.rng.range(1, 6);
            let d = gen::adversarial(&mut ctx.rng, n, lvl, pieces, 4);
            let desc = format!("sparse: {}", show_bytes(&d));
            (d, desc)
        }
        _ => {
            let (d, desc) = gen::gen_input(&mut ctx.rng, 5);
            let desc = format!("{}: {}", desc, show_bytes(&d));
            (d, desc)
        }
    }
}

/// History on ONE generator object: rich input -> finalize -> reset -> sparse / low-entropy /
/// short / empty input -> finalize -> reset -> rich again ..., with and without a declared
/// size in between, mixing the update forms; every finalization is compared with the
/// reference CTPH of the bytes fed since the last reset.
pub fn reuse_history(ctx: &mut Ctx, tag: &str) -> R {
    let mut g = Generator::new();
    let mut log: Vec<String> = Vec::new();
    let mut done: Vec<(Vec<u8>, String, Option<u64>)> = Vec::new();
    let phases = ctx.rng.range(2, 6);
    let start_rich = !ctx.rng.chance(1, 5);
    for phase in 0..phases {
        ctx.input();
        let rich = (phase % 2 == 0) == start_rich;
        let (data, desc) = history_input(ctx, rich);
        // a declared size: none, the right one, or a wrong one (whose limit must not survive reset)
        let declared: Option<u64> = match ctx.rng.below(8) {
            0 | 1 | 2 => Some(data.len() as u64),
            3 => Some(*ctx.rng.pick(&[0u64, 10, 100, 5_000])).filter(|&d| d != data.len() as u64),
            _ => None,
        };
        let mut entry = format!("[{}] ", desc);
        let res = guard(|| {
            let mut plan = String::new();
            if let Some(d) = declared {
                if g.set_fixed_input_size(d).is_err() {
                    return (plan, Some(("set-fixed-input-size-result", format!("real code: set_fixed_input_size({}) on a generator without a declaration = Err\noracle: Ok(())", d))));
                }
                plan.push_str(&format!("set_fixed_input_size({}) ", d));
            }
            if data.len() > 30_000 || ctx.rng.chance(1, 2) {
                // large chunks (keeps the history readable and fast), forms still mixed
                let mut pos = 0usize;
                while pos < data.len() {
                    let k = ctx.rng.range(1, 40_000).min(data.len() - pos);
                    let chunk = &data[pos..pos + k];
                    match ctx.rng.below(4) {
                        0 => {
                            g.update_by_iter(chunk.iter().copied());
                            plan.push_str(&format!("update_by_iter({}) ", k));
                        }
                        1 => {
                            g += chunk;
                            plan.push_str(&format!("+=slice({}) ", k));
                        }
                        2 => {
                            let (it, name) = gen::odd_iter(&mut ctx.rng, chunk);
                            g.update_by_iter(it);
                            plan.push_str(&format!("update_by_iter[{}]({}) ", name, k));
                        }
                        _ => {
                            g.update(chunk);
                            plan.push_str(&format!("update({}) ", k));
                        }
                    }
                    pos += k;
                }
            } else {
                plan.push_str(&feed_randomly(ctx, &mut g, &data));
            }
            plan.push_str("finalize");
            (plan, diff_generator(&g, 0, &data, declared.map_or(true, |d| d == data.len() as u64)))
        });
        ctx.checks.extend(GENERATOR_CHECKS);
        ctx.checks.insert("finalize-after-wrong-declared-size");
        let (plan, d) = match res {
            Ok(x) => x,
            Err(msg) => (String::from("(panicked)"), Some(("generator-panic", format!("real code: PANICKED: {}\noracle: never panics", msg)))),
        };
        // keep the call list of a phase readable
        if plan.len() > 400 {
            let calls = plan.split(' ').count();
            let mut cut = 300;
            while !plan.is_char_boundary(cut) {
                cut -= 1;
            }
            entry.push_str(&format!("{} ... ({} calls in all) ... finalize", &plan[..cut], calls));
        } else {
            entry.push_str(&plan);
        }
        log.push(entry);
        done.push((data.clone(), desc.clone(), declared));
        if let Some((check, what)) = d {
            // does a simplified history (one update() per phase, fewer phases) show it too?
            let simple = |hist: &[(Vec<u8>, String, Option<u64>)]| -> Option<(&'static str, String)> {
                guard(|| {
                    let mut g = Generator::new();
                    let mut last = None;
                    for (i, (bytes, _, decl)) in hist.iter().enumerate() {
                        if let Some(d) = decl {
                            let _ = g.set_fixed_input_size(*d);
                        }
                        g.update(bytes);
                        if i + 1 == hist.len() {
                            last = diff_generator(&g, 0, bytes, decl.map_or(true, |d| d == bytes.len() as u64));
                        } else {
                            let _ = g.finalize();
                            g.reset();
                        }
                    }
                    last
                })
                .unwrap_or_else(|msg| Some(("generator-panic", format!("real code: PANICKED: {}\noracle: never panics", msg))))
            };
            let n = done.len();
            for start in [n.saturating_sub(2), 0] {
                if let Some((check2, what2)) = simple(&done[start..]) {
                    let lines: Vec<String> = done[start..]
                        .iter()
                        .map(|(b, dsc, decl)| format!("[{}] {}update(all {} bytes) finalize", dsc, decl.map_or(String::new(), |d| format!("set_fixed_input_size({}) ", d)), b.len()))
                        .collect();
                    return Err(Fail {
                        check: check2,
                        details: format!(
                            "[{}] history on ONE generator object, simplified to one update() per phase (Generator::new(), then):\n  {}\nfailing: the last finalization, {} bytes fed since the last reset()\n{}\n(a fresh generator fed the same last input gives the reference hash: {})",
                            tag, lines.join("\n  reset()\n  "), done[n - 1].0.len(), what2, diff_oneshot(&done[n - 1].0).is_none()
                        ),
                    });
                }
            }
            let fresh = if declared.map_or(true, |d| d == data.len() as u64) {
                match diff_oneshot(&data) {
                    None => "a fresh generator fed the same bytes with one update() gives the reference hash".to_string(),
                    Some(_) => "a fresh generator fed the same bytes with one update() disagrees with the reference too".to_string(),
                }
            } else {
                "a wrong size was declared in this phase: every finalization has to fail".to_string()
            };
            return Err(Fail {
                check,
                details: format!(
                    "[{}] failing phase: #{} , {} bytes fed since the last reset()\n{}\n({})\nhistory on ONE generator object (new(), then per phase: input, calls; reset() between phases; not reproduced by one update() per phase):\n  {}",
                    tag, phase + 1, data.len(), what, fresh, log.join("\n  reset()\n  ")
                ),
            });
        }
        g.reset();
    }
    Ok(())
}

/// The CORRECT total size declared at a random point of the feeding (before, after one byte,
/// in the middle, after all bytes, twice with the same value): every finalize form must
/// still give the reference CTPH of the whole input.
pub fn declared_correct_midway(ctx: &mut Ctx, data: &[u8], desc: &str) -> R {
    ctx.input();
    let n = data.len();
    let point = match ctx.rng.below(7) {
        0 => 0,
        1 => 1.min(n),
        2 => n,
        3 => n.saturating_sub(1),
        4 => n.min(ctx.rng.range(2, 200)),
        _ => ctx.rng.range(0, n),
    };
    let twice = ctx.rng.chance(1, 4);
    let second_point = if twice { ctx.rng.range(point, n) } else { n };
    let simple = ctx.rng.chance(1, 2);
    let mut plan = String::new();
    let res = guard(|| {
        let mut g = Generator::new();
        let mut bad: Option<(&'static str, String)> = None;
        let mut feed = |g: &mut Generator, part: &[u8], plan: &mut String, ctx: &mut Ctx| {
            if simple || part.len() > 20_000 {
                g.update(part);
                plan.push_str(&format!("update({}) ", part.len()));
            } else {
                let p = feed_randomly(ctx, g, part);
                if p.len() > 300 {
                    plan.push_str(&format!("[{} bytes in {} mixed calls] ", part.len(), p.split(' ').count()));
                } else {
                    plan.push_str(&p);
                }
            }
        };
        feed(&mut g, &data[..point], &mut plan, ctx);
        let r = g.set_fixed_input_size(n as u64);
        plan.push_str(&format!("set_fixed_input_size({}) ", n));
        if r.is_err() {
            bad = Some(("set-fixed-input-size-result", format!("real code: set_fixed_input_size({}) = {:?}\noracle: Ok(())", n, r)));
        }
        feed(&mut g, &data[point..second_point], &mut plan, ctx);
        if twice {
            let r = if ctx.rng.chance(1, 2) { g.set_fixed_input_size(n as u64) } else { g.set_fixed_input_size_in_usize(n) };
            plan.push_str(&format!("set_fixed_input_size({}) again ", n));
            if r.is_err() {
                bad = Some(("set-fixed-input-size-result", format!("real code: the second, identical set_fixed_input_size({}) = {:?}\noracle: Ok(())", n, r)));
            }
            feed(&mut g, &data[second_point..], &mut plan, ctx);
        }
        plan.push_str("finalize");
        bad.or_else(|| diff_generator(&g, 0, data, true))
    });
    ctx.checks.extend(GENERATOR_CHECKS);
    ctx.checks.insert("declared-correct-size-midway");
    let d = match res {
        Ok(d) => d,
        Err(msg) => Some(("generator-panic", format!("real code: PANICKED: {}\noracle: never panics", msg))),
    };
    if let Some((check, what)) = d {
        return Err(Fail {
            check,
            details: format!(
                "the correct total size declared while feeding\ncalls on a new generator: {}\n{}\n(without the declaration a generator fed the same bytes gives the reference hash: {})\ninput {}: {}",
                plan, what, diff_oneshot(data).is_none(), desc, show_bytes(data)
            ),
        });
    }
    Ok(())
}

/// A refused declaration must leave the generator unchanged, the fork limit included:
/// declare A (Ok); try B != A (much smaller, much larger, beyond 192 GiB) and check the
/// error; feed exactly A bytes in mixed forms (some of them possibly before the first and
/// between the declarations); every finalize form must give the reference CTPH.
pub fn refused_declaration(ctx: &mut Ctx, tag: &str) -> R {
    ctx.input();
    let (data, desc) = match ctx.rng.below(4) {
        0 => boundary_rich_input(ctx),
        1 => gen::gen_input(&mut ctx.rng, 7),
        _ => {
            let n = *ctx.rng.pick(&[200usize, 3_000, 20_000, 65_536, 100_000, 400_000]) + ctx.rng.range(0, 99);
            let seed = ctx.rng.next() as u32;
            (lcg_bytes(seed, n), format!("{} bytes from the LCG x<-x*1664525+1013904223 (u32), x0={}, byte=x>>24", n, seed))
        }
    };
    let a = data.len() as u64;
    let k0 = if ctx.rng.chance(1, 2) { 0 } else { ctx.rng.range(0, data.len()) };
    let k1 = if ctx.rng.chance(1, 2) { k0 } else { ctx.rng.range(k0, data.len()) };
    let nrefused = ctx.rng.range(1, 3);
    let simple = ctx.rng.chance(1, 2);
    let mut plan = String::new();
    let res = guard(|| {
        let mut g = Generator::new();
        let feed = |g: &mut Generator, part: &[u8], plan: &mut String, ctx: &mut Ctx| {
            if part.is_empty() {
                return;
            }
            if simple || part.len() > 20_000 {
                g.update(part);
                plan.push_str(&format!("update({}) ", part.len()));
            } else {
                let p = feed_randomly(ctx, g, part);
                if p.len() > 300 {
                    plan.push_str(&format!("[{} bytes in {} mixed calls] ", part.len(), p.split(' ').count()));
                } else {
                    plan.push_str(&p);
                }
            }
        };
        feed(&mut g, &data[..k0], &mut plan, ctx);
        let r = g.set_fixed_input_size(a);
        plan.push_str(&format!("set_fixed_input_size({})={:?} ", a, r));
        if r != Ok(()) {
            return Some(("set-fixed-input-size-result", format!("real code: the first declaration set_fixed_input_size({}) = {:?}\noracle: Ok(())", a, r)));
        }
        feed(&mut g, &data[k0..k1], &mut plan, ctx);
        for _ in 0..nrefused {
            let b: u64 = match ctx.rng.below(8) {
                0 => 0,
                1 => 1,
                2 => 100,
                3 => a / 100,
                4 => a * 50 + 7,
                5 => oracle::MAX_INPUT,
                6 => oracle::MAX_INPUT + 1 + ctx.rng.below(1000),
                _ => (96u64 << 30) + 1,
            };
            if b == a {
                continue;
            }
            let want = if b > oracle::MAX_INPUT { Err(GeneratorError::FixedSizeTooLarge) } else { Err(GeneratorError::FixedSizeMismatch) };
            let r = if ctx.rng.chance(1, 4) { g.set_fixed_input_size_in_usize(b as usize) } else { g.set_fixed_input_size(b) };
            plan.push_str(&format!("set_fixed_input_size({})={:?} ", b, r));
            if r != want {
                return Some(("set-fixed-input-size-result", format!("real code: the second declaration set_fixed_input_size({}) after {} = {:?}\noracle: {:?}", b, a, r, want)));
            }
        }
        feed(&mut g, &data[k1..], &mut plan, ctx);
        plan.push_str("finalize");
        diff_generator(&g, 0, &data, true)
    });
    ctx.checks.extend(GENERATOR_CHECKS);
    ctx.checks.extend(["set-fixed-input-size-result", "refused-declaration-leaves-generator-unchanged"]);
    let d = match res {
        Ok(d) => d,
        Err(msg) => Some(("generator-panic", format!("real code: PANICKED: {}\noracle: never panics", msg))),
    };
    if let Some((check, what)) = d {
        return Err(Fail {
            check,
            details: format!(
                "[{}] a refused declaration must leave the generator unchanged\ncalls on a new generator: {}\n{}\ninput ({} bytes) {}{}",
                tag, plan, what, data.len(), desc, if desc.contains("LCG") { String::new() } else { format!(": {}", show_bytes(&data)) }
            ),
        });
    }
    Ok(())
}

/// Declared sizes around 96 GiB .. 192 GiB (and no declaration) with inputs that end a piece
/// at every level 0..=30 at once: no panic; Err(FixedSizeMismatch) when declared != fed;
/// the reference CTPH otherwise.
pub fn high_declared_sizes(ctx: &mut Ctx, tag: &str) -> R {
    const G96: u64 = 96u64 << 30;
    let sizes: [Option<u64>; 9] = [None, Some(G96 - 1), Some(G96), Some(G96 + 1), Some(G96 + 2), Some(128u64 << 30), Some(oracle::MAX_INPUT - 1), Some(oracle::MAX_INPUT), Some(48u64 << 30)];
    for &declared in &sizes {
        ctx.input();
        // the input: optional zero / random bytes, then trigger words for the top levels, once or several times
        let mut data = Vec::new();
        let pre = *ctx.rng.pick(&[0usize, 0, 1, 6, 7, 20, 100]);
        let style = *ctx.rng.pick(&[4u8, 0]);
        gen::fill(&mut ctx.rng, &mut data, pre, style);
        let words = *ctx.rng.pick(&[1usize, 1, 2, 3, 33, 70]);
        for _ in 0..words {
            let lvl = *ctx.rng.pick(&[30u8, 30, 30, 29, 28, 25]);
            data.extend_from_slice(&gen::trigger_word(&mut ctx.rng, lvl));
            let gap = ctx.rng.range(0, 9);
            gen::fill(&mut ctx.rng, &mut data, gap, style);
        }
        if ctx.rng.chance(1, 2) {
            data.push(1 + ctx.rng.below(255) as u8);
        }
        let form = ctx.rng.below(5);
        // with the verification hook the declared size can really be reached
        #[cfg(a4lg_ffuzzy_verif)]
        let zeros: u64 = match declared {
            Some(d) if ctx.rng.chance(2, 3) => (d + ctx.rng.below(3)).saturating_sub(1).saturating_sub(data.len() as u64),
            _ => 0,
        };
        #[cfg(not(a4lg_ffuzzy_verif))]
        let zeros: u64 = 0;
        let declare_first = ctx.rng.chance(3, 4);
        let mut plan = String::new();
        let res = guard(|| {
            #[cfg(a4lg_ffuzzy_verif)]
            let mut g: Generator = if zeros > 0 { Generator::verif_after_zero_bytes(zeros) } else { Generator::new() };
            #[cfg(not(a4lg_ffuzzy_verif))]
            let mut g = Generator::new();
            if zeros > 0 {
                plan.push_str(&format!("(state after {} zero bytes) ", zeros));
            }
            let declare = |g: &mut Generator, plan: &mut String| -> Option<(&'static str, String)> {
                if let Some(d) = declared {
                    let r = g.set_fixed_input_size(d);
                    plan.push_str(&format!("set_fixed_input_size({}) ", d));
                    if r != Ok(()) {
                        return Some(("set-fixed-input-size-result", format!("real code: set_fixed_input_size({}) = {:?}\noracle: Ok(()) (not above 192 GiB)", d, r)));
                    }
                }
                None
            };
            if declare_first {
                if let Some(b) = declare(&mut g, &mut plan) {
                    return Some(b);
                }
            }
            match form {
                0 => {
                    plan.push_str(&format!("update({}) ", data.len()));
                    g.update(&data);
                }
                1 => {
                    plan.push_str(&format!("update_by_iter({}) ", data.len()));
                    g.update_by_iter(data.iter().copied());
                }
                2 => {
                    plan.push_str(&format!("update_by_byte x{} ", data.len()));
                    for &b in &data {
                        g.update_by_byte(b);
                    }
                }
                3 => {
                    let (it, name) = gen::odd_iter(&mut ctx.rng, &data);
                    plan.push_str(&format!("update_by_iter[{}]({}) ", name, data.len()));
                    g.update_by_iter(it);
                }
                _ => {
                    plan.push_str(&format!("[{} bytes in mixed update forms] ", data.len()));
                    let _ = feed_randomly(ctx, &mut g, &data);
                }
            }
            if !declare_first {
                if let Some(b) = declare(&mut g, &mut plan) {
                    return Some(b);
                }
            }
            plan.push_str("finalize");
            let total = zeros + data.len() as u64;
            diff_generator(&g, zeros, &data, declared.map_or(true, |d| d == total))
        });
        ctx.checks.extend(GENERATOR_CHECKS);
        ctx.checks.extend(["finalize-after-wrong-declared-size", "high-declared-sizes-never-panic"]);
        let d = match res {
            Ok(d) => d,
            Err(msg) => Some(("generator-panic", format!("real code: PANICKED: {} (replay is built in release mode with overflow checks on, debug assertions off)\noracle: never panics; finalize gives Err(FixedSizeMismatch) when the declared size differs from the bytes fed, the reference hash otherwise", msg))),
        };
        if let Some((check, what)) = d {
            return Err(Fail {
                check,
                details: format!(
                    "[{}] declared size {:?} ({} zero bytes assumed fed through the verification hook), input {}\ncalls: {}\n{}",
                    tag, declared, zeros, show_bytes(&data), plan, what
                ),
            });
        }
    }
    Ok(())
}

/// Inputs of 100..4000 bytes with many piece boundaries (random, text-like, trigger-rich):
/// the level above the size-derived one is usually live long before the end.
fn boundary_rich_input(ctx: &mut Ctx) -> (Vec<u8>, String) {
    let n = ctx.rng.range(100, 4000);
    match ctx.rng.below(3) {
        0 => {
            let mut d = Vec::new();
            gen::fill(&mut ctx.rng, &mut d, n, 0);
            (d, format!("random bytes, size {}", n))
        }
        1 => {
            let mut d = Vec::new();
            gen::fill(&mut ctx.rng, &mut d, n, 5);
            (d, format!("text-like bytes, size {}", n))
        }
        _ => {
            let init = (0u8..31).find(|&l| (192usize << l) >= n).unwrap_or(0);
            let lvl = init + ctx.rng.range(0, 2) as u8;
            let pieces = ctx.rng.range(10, 70);
            let style = *ctx.rng.pick(&[0u8, 5, 4, 3]);
            (gen::adversarial(&mut ctx.rng, n, lvl, pieces, style), format!("trigger-rich: adversarial(size~{}, level={}, pieces={}, filler={})", n, lvl, pieces, style))
        }
    }
}

/// Every window with an extreme rolling-hash value alone, three times and forty times.
fn extreme_sweep(ctx: &mut Ctx) -> R {
    for (val, w) in gen::extreme_words() {
        for reps in [1usize, 2, 3, 40] {
            let data: Vec<u8> = std::iter::repeat(w).take(reps).flatten().collect();
            let desc = format!("the 7-byte window {} (rolling hash {:#010x}) x{}", crate::util::hex(&w), val, reps);
            c01_one(ctx, &data, &desc)?;
        }
    }
    Ok(())
}

pub fn c01(ctx: &mut Ctx) -> R {
    extreme_sweep(ctx)?;
    // reused generator objects: the documented reset() only re-initialises what a new history needs
    for _ in 0..2 {
        reuse_history(ctx, "C01: reused generator")?;
    }
    // tiny inputs exhaustively-ish first
    for n in 0..=8usize {
        for v in 0..4u8 {
            let data: Vec<u8> = (0..n).map(|i| if v == 0 { 0 } else { (i as u8).wrapping_mul(37).wrapping_add(v) }).collect();
            c01_one(ctx, &data, "tiny")?;
        }
    }
    let mut round = 0u32;
    while ctx.alive() {
        round += 1;
        let max_n = if round % 16 == 0 { 11 } else if round % 4 == 0 { 8 } else { 5 };
        let (data, desc) = gen::gen_input(&mut ctx.rng, max_n);
        c01_one(ctx, &data, &desc)?;
        if data.len() <= 20_000 || round % 4 == 0 {
            declared_correct_midway(ctx, &data, &desc)?;
        }
        let (d2, desc2) = boundary_rich_input(ctx);
        c01_one(ctx, &d2, &desc2)?;
        declared_correct_midway(ctx, &d2, &desc2)?;
        let (d3, desc3) = gen::extreme_input(&mut ctx.rng);
        c01_one(ctx, &d3, &desc3)?;
        declared_correct_midway(ctx, &d3, &desc3)?;
        if round % 32 == 0 {
            reuse_history(ctx, "C01: reused generator")?;
        }
        if round % 16 == 1 {
            refused_declaration(ctx, "C01")?;
            high_declared_sizes(ctx, "C01: declared sizes up to 192 GiB, pieces at every level")?;
        }
    }
    Ok(())
}

fn c01_one(ctx: &mut Ctx, data: &[u8], desc: &str) -> R {
    ctx.input();
    ctx.checks.extend(GENERATOR_CHECKS);
    if diff_oneshot(data).is_some() {
        return Err(fail_oneshot(data, desc));
    }
    // the one-shot buffer function
    let hb = ctx.nopanic("hash_buf-vs-ctph", || ssdeep::hash_buf(data), || format!("input {}: {}", desc, show_bytes(data)))?;
    let want = oracle::ctph(0, data).unwrap();
    let ok = match &hb {
        Ok(h) => h.is_valid() && h.log_block_size() == want.log_bs && h.block_hash_1() == &want.bh1[..] && h.block_hash_2() == &want.bh2_trunc[..],
        Err(_) => false,
    };
    ctx.check("hash_buf-vs-ctph", ok, || {
        format!(
            "input {}: {}\nreal code: hash_buf = {}\noracle (reference CTPH): {}",
            desc, show_bytes(data), show_short(&hb), text_of(want.log_bs, &want.bh1, &want.bh2_trunc)
        )
    })
}

/// Feeds `data` to `g` in a random way; returns a description of the plan.  Clones and
/// intermediate finalizations are mixed in; `g` may be replaced by a clone of itself.
fn feed_randomly(ctx: &mut Ctx, g: &mut Generator, data: &[u8]) -> String {
    let mut plan = String::new();
    let mut pos = 0usize;
    let big = ctx.rng.chance(1, 3);
    while pos < data.len() {
        let left = data.len() - pos;
        let k = if big { ctx.rng.range(1, 5000) } else { *ctx.rng.pick(&[1usize, 1, 2, 3, 6, 7, 8, 13, 64, 191, 192, 193]) }.min(left);
        let chunk = &data[pos..pos + k];
        match ctx.rng.below(11) {
            9 | 10 => {
                let (it, name) = gen::odd_iter(&mut ctx.rng, chunk);
                g.update_by_iter(it);
                plan.push_str(&format!("update_by_iter[{}]({}) ", name, k));
            }
            0 | 1 => {
                g.update(chunk);
                plan.push_str(&format!("update({}) ", k));
            }
            2 => {
                g.update_by_iter(chunk.iter().copied());
                plan.push_str(&format!("update_by_iter({}) ", k));
            }
            3 => {
                *g += chunk;
                plan.push_str(&format!("+=slice({}) ", k));
            }
            4 if k <= 64 => {
                for &b in chunk {
                    if b & 1 == 0 {
                        g.update_by_byte(b);
                    } else {
                        *g += b;
                    }
                }
                plan.push_str(&format!("by_byte/+=u8({}) ", k));
            }
            5 => {
                // the array form `+= &[u8; N]` for a spread of N, always followed by more updates
                let n = (*ctx.rng.pick(&crate::util::ARRAY_NS)).min(k);
                if crate::add_array_std!(*g, &chunk[..n]) {
                    plan.push_str(&format!("+=array({}) ", n));
                } else {
                    g.update(&chunk[..n]);
                    plan.push_str(&format!("update({}) ", n));
                }
                for &b in &chunk[n..] {
                    g.update_by_byte(b);
                }
                if k > n {
                    plan.push_str(&format!("update_by_byte x{} ", k - n));
                }
            }
            6 => {
                let _ = g.finalize();
                let _ = g.finalize_without_truncation();
                g.update(chunk);
                plan.push_str(&format!("finalize update({}) ", k));
            }
            7 => {
                let c = g.clone();
                *g = c;
                g.update(chunk);
                plan.push_str(&format!("clone update({}) ", k));
            }
            _ => {
                g.update(&[]);
                g.update_by_iter(std::iter::empty());
                g.update(chunk);
                plan.push_str(&format!("update(0) update({}) ", k));
            }
        }
        pos += k;
    }
    plan
}

pub fn c03(ctx: &mut Ctx) -> R {
    let mut round = 0u32;
    while ctx.alive() {
        round += 1;
        if round % 24 == 1 {
            reuse_history(ctx, "C03: reused generator, mixed update forms")?;
        }
        let max_n = if round % 8 == 0 { 9 } else { 4 };
        let (data, desc) = if round % 3 == 2 { gen::extreme_input(&mut ctx.rng) } else { gen::gen_input(&mut ctx.rng, max_n) };
        ctx.input();
        // if the one-shot form is already wrong this is a C01 matter, but still a disagreement
        ctx.checks.extend(GENERATOR_CHECKS);
        if diff_oneshot(&data).is_some() {
            return Err(fail_oneshot(&data, &desc));
        }
        for _ in 0..3 {
            let mut plan = String::new();
            let res = guard(|| {
                let mut g = Generator::new();
                plan = feed_randomly(ctx, &mut g, &data);
                diff_generator(&g, 0, &data, true)
            });
            ctx.checks.insert("chunked-feeding-vs-ctph");
            let d = match res {
                Ok(d) => d,
                Err(msg) => Some(("generator-panic", format!("real code: PANICKED: {}\noracle: never panics", msg))),
            };
            if let Some((check, what)) = d {
                return Err(Fail {
                    check,
                    details: format!(
                        "input {}: {}\nfed as: {}\n(the same bytes fed with a single update() give the reference hash)\n{}",
                        desc, show_bytes(&data), plan, what
                    ),
                });
            }
        }
        declared_correct_midway(ctx, &data, &desc)?;
        let (d2, desc2) = boundary_rich_input(ctx);
        declared_correct_midway(ctx, &d2, &desc2)?;
        // reader-based function under short reads
        if round % 2 == 0 {
            stream_one(ctx, &data, &desc, false)?;
        }
    }
    Ok(())
}

/// Declared size n, fed k bytes (fewer, equal, more) through one update form: every
/// finalize* is Err(FixedSizeMismatch) iff k != n, and the reference hash when k == n.
/// Used by the C12 and the C18 explorers (hash_file / hash_stream sit on exactly this).
pub fn declared_vs_fed(ctx: &mut Ctx, tag: &str) -> R {
    let (data, desc) = gen::gen_input(&mut ctx.rng, 4);
    let n = data.len();
    let ks = [0usize, n.saturating_sub(1), n / 2, n, n + 1, n.saturating_sub(7), n + 7, n.saturating_sub(n.min(192)), 2 * n + 1];
    for &k in &ks {
        ctx.input();
        // the bytes actually fed: a prefix of the data, or the data and some more
        let mut fed = data.clone();
        if k <= n {
            fed.truncate(k);
        } else {
            gen::fill(&mut ctx.rng, &mut fed, k - n, 0);
        }
        let form = ctx.rng.below(6);
        let when = ctx.rng.below(3); // declare before, in the middle of, or after feeding
        let mut plan = String::new();
        let res = guard(|| {
            let mut g = Generator::new();
            let cut = if when == 1 { fed.len() / 2 } else if when == 0 { 0 } else { fed.len() };
            let feed = |g: &mut Generator, part: &[u8], ctx: &mut Ctx, plan: &mut String| match form {
                0 => {
                    g.update(part);
                    plan.push_str(&format!("update({}) ", part.len()));
                }
                1 => {
                    g.update_by_iter(part.iter().copied());
                    plan.push_str(&format!("update_by_iter({}) ", part.len()));
                }
                2 => {
                    for &b in part {
                        g.update_by_byte(b);
                    }
                    plan.push_str(&format!("update_by_byte x{} ", part.len()));
                }
                3 => {
                    *g += part;
                    plan.push_str(&format!("+=slice({}) ", part.len()));
                }
                4 => {
                    for &b in part {
                        *g += b;
                    }
                    plan.push_str(&format!("+=u8 x{} ", part.len()));
                }
                _ => {
                    let (it, name) = gen::odd_iter(&mut ctx.rng, part);
                    g.update_by_iter(it);
                    plan.push_str(&format!("update_by_iter[{}]({}) ", name, part.len()));
                }
            };
            feed(&mut g, &fed[..cut], ctx, &mut plan);
            let r = g.set_fixed_input_size(n as u64);
            plan.push_str(&format!("set_fixed_input_size({}) ", n));
            feed(&mut g, &fed[cut..], ctx, &mut plan);
            if r.is_err() {
                return Some(("set-fixed-input-size-result", format!("real code: set_fixed_input_size({}) = {:?}\noracle: Ok(())", n, r)));
            }
            diff_generator(&g, 0, &fed, k == n)
        });
        ctx.checks.extend(GENERATOR_CHECKS);
        ctx.checks.insert("finalize-after-wrong-declared-size");
        let d = match res {
            Ok(d) => d,
            Err(msg) => Some(("generator-panic", format!("real code: PANICKED: {}\noracle: never panics", msg))),
        };
        if let Some((check, what)) = d {
            return Err(Fail {
                check,
                details: format!(
                    "[{}] declared size {} , bytes actually fed {} ({})\ndata {}: {}\nhistory: {}\n{}",
                    tag, n, k, if k < n { "fewer than declared" } else if k > n { "more than declared" } else { "as declared" },
                    desc, show_bytes(&fed), plan, what
                ),
            });
        }
    }
    Ok(())
}

pub fn c12(ctx: &mut Ctx) -> R {
    while ctx.alive() {
        declared_vs_fed(ctx, "C12: declared size against the bytes fed")?;
        refused_declaration(ctx, "C12")?;
        high_declared_sizes(ctx, "C12: declared sizes up to 192 GiB, pieces at every level")?;
        let (d2, desc2) = if ctx.rng.chance(1, 2) { boundary_rich_input(ctx) } else { gen::gen_input(&mut ctx.rng, 6) };
        declared_correct_midway(ctx, &d2, &desc2)?;
        reuse_history(ctx, "C12: reset() and declared sizes on a reused generator")?;
        ctx.input();
        let mut log = String::new();
        let res = guard(|| c12_history(ctx, &mut log));
        ctx.checks.extend(GENERATOR_CHECKS);
        ctx.checks.extend(["set-fixed-input-size-result", "finalize-after-wrong-declared-size"]);
        match res {
            Ok(None) => {}
            Ok(Some((check, what))) => return Err(Fail { check, details: format!("history: {}\n{}", log, what) }),
            Err(msg) => {
                return Err(Fail {
                    check: "generator-panic",
                    details: format!("history: {}\nreal code: PANICKED: {}\noracle: never panics", log, msg),
                })
            }
        }
    }
    Ok(())
}

/// One random history over one generator object; model = (bytes fed since reset, declared size).
fn c12_history(ctx: &mut Ctx, log: &mut String) -> Option<(&'static str, String)> {
    let mut g = Generator::new();
    let mut fed: Vec<u8> = Vec::new();
    let mut declared: Option<u64> = None;
    let phases = ctx.rng.range(1, 3);
    for phase in 0..phases {
        // what this phase will feed in total
        let (data, desc) = if phase + 1 < phases && ctx.rng.chance(1, 2) {
            gen::gen_input(&mut ctx.rng, 8)
        } else {
            gen::gen_input(&mut ctx.rng, 3)
        };
        log.push_str(&format!("[data {} = {}] ", desc, show_bytes(&data)));
        let mut pos = 0usize;
        let steps = ctx.rng.range(1, 6);
        for step in 0..=steps {
            // maybe declare a size
            if ctx.rng.chance(1, 2) {
                let s: u64 = match ctx.rng.below(8) {
                    0 => oracle::MAX_INPUT + 1 + ctx.rng.below(5),
                    1 => u64::MAX - ctx.rng.below(3),
                    2 => oracle::MAX_INPUT,
                    3 => data.len() as u64 + 1,
                    4 => (data.len() as u64).saturating_sub(1),
                    5 => ctx.rng.below(1 << 20),
                    _ => data.len() as u64,
                };
                let usize_form = ctx.rng.chance(1, 3);
                let r = if usize_form { g.set_fixed_input_size_in_usize(s as usize) } else { g.set_fixed_input_size(s) };
                log.push_str(&format!("set_fixed_input_size{}({}) ", if usize_form { "_in_usize" } else { "" }, s));
                let want = if s > oracle::MAX_INPUT {
                    Err(GeneratorError::FixedSizeTooLarge)
                } else if declared.is_some() && declared != Some(s) {
                    Err(GeneratorError::FixedSizeMismatch)
                } else {
                    declared = Some(s);
                    Ok(())
                };
                if r != want {
                    return Some(("set-fixed-input-size-result", format!("real code: last call returned {:?}\noracle: {:?}", r, want)));
                }
                let warn = declared.unwrap_or(fed.len() as u64) < 4097;
                if g.may_warn_about_small_input_size() != warn {
                    return Some((
                        "small-input-warning",
                        format!("real code: may_warn_about_small_input_size() = {}\noracle: {} (declared {:?}, fed {})", !warn, warn, declared, fed.len()),
                    ));
                }
            }
            // feed a part
            let k = if step == steps { data.len() - pos } else { ctx.rng.range(0, data.len() - pos) };
            g.update(&data[pos..pos + k]);
            fed.extend_from_slice(&data[pos..pos + k]);
            pos += k;
            log.push_str(&format!("update({}) ", k));
            // finalize (always at the end of a phase)
            if step == steps || ctx.rng.chance(1, 3) {
                log.push_str("finalize ");
                let ok = declared.map_or(true, |d| d == fed.len() as u64);
                if let Some(d) = diff_generator(&g, 0, &fed, ok) {
                    return Some(d);
                }
            }
        }
        if phase + 1 < phases {
            g.reset();
            fed.clear();
            declared = None;
            log.push_str("reset ");
        }
    }
    None
}

pub fn c13(ctx: &mut Ctx) -> R {
    // constants of the size contract
    extreme_sweep(ctx)?;
    ctx.check("max-input-size-constant", Generator::MAX_INPUT_SIZE == oracle::MAX_INPUT, || {
        format!("real code: Generator::MAX_INPUT_SIZE = {}\noracle: 192 GiB = {}", Generator::MAX_INPUT_SIZE, oracle::MAX_INPUT)
    })?;
    for s in [0u64, 1, 4095, 4096, 4097, 4098, 1 << 20] {
        ctx.input();
        let mut g = Generator::new();
        let r = g.set_fixed_input_size(s);
        let got = g.may_warn_about_small_input_size();
        ctx.check("small-input-warning", r.is_ok() && got == (s < 4097), || {
            format!("declared size {}\nreal code: set_fixed_input_size = {:?}, may_warn_about_small_input_size() = {}\noracle: Ok, {}", s, r, got, s < 4097)
        })?;
    }
    #[cfg(a4lg_ffuzzy_verif)]
    {
        c13_hook_selfcheck(ctx)?;
        c13_huge(ctx, 6)?;
    }
    // every border 192*2^n +/- 2 that can be fed for real, cheapest first, with a crafted suffix
    let mut n = 0u32;
    let mut round = 0u64;
    while ctx.alive() {
        round += 1;
        let border = 192usize << n;
        let delta = (round % 5) as i64 - 2;
        let size = (border as i64 + delta) as usize;
        let style = *ctx.rng.pick(&[4u8, 3, 0, 4]);
        let lvl = *ctx.rng.pick(&[n as u8, n as u8, (n as u8).saturating_sub(1), n as u8 + 1]);
        let pieces = *ctx.rng.pick(&[0usize, 20, 31, 32, 33, 64, 70]);
        let suffix_len = ctx.rng.range(0, size.min(4096));
        let mut data = Vec::with_capacity(size);
        gen::fill(&mut ctx.rng, &mut data, size - suffix_len, style);
        data.extend(gen::adversarial(&mut ctx.rng, suffix_len, lvl, pieces.min(suffix_len / 8), style));
        data.truncate(size);
        while data.len() < size {
            data.push(0);
        }
        let desc = format!("border 192*2^{}{:+} filler={} suffix: {} pieces at level {}", n, delta, style, pieces, lvl);
        ctx.input();
        ctx.checks.extend(GENERATOR_CHECKS);
        if diff_oneshot(&data).is_some() {
            return Err(fail_oneshot(&data, &desc));
        }
        declared_correct_midway(ctx, &data, &desc)?;
        {
            let (d3, desc3) = gen::extreme_input(&mut ctx.rng);
            ctx.input();
            if diff_oneshot(&d3).is_some() {
                return Err(fail_oneshot(&d3, &desc3));
            }
            declared_correct_midway(ctx, &d3, &desc3)?;
        }
        if round % 5 == 1 {
            high_declared_sizes(ctx, "C13: declared sizes up to 192 GiB, pieces at every level")?;
            refused_declaration(ctx, "C13")?;
        }
        if round % 5 == 0 {
            let (d2, desc2) = boundary_rich_input(ctx);
            declared_correct_midway(ctx, &d2, &desc2)?;
            n = if n >= 14 { 0 } else { n + 1 };
            #[cfg(a4lg_ffuzzy_verif)]
            if n == 0 {
                c13_huge(ctx, 40)?;
            }
        }
    }
    Ok(())
}

/// The hook itself is validated against really feeding N zero bytes: for every small N and sampled larger N the two
/// generators must be in the same state (compared through their Debug rendering, which prints every field).
#[cfg(a4lg_ffuzzy_verif)]
fn c13_hook_selfcheck(ctx: &mut Ctx) -> R {
    ctx.checks.insert("zero-prefix-hook-vs-feeding");
    let mut fed = Generator::new();
    let mut n: u64 = 0;
    let zeros = [0u8; 4096];
    loop {
        let hooked = Generator::verif_after_zero_bytes(n);
        let a = format!("{:?}", hooked);
        let b = format!("{:?}", fed);
        if a != b {
            return Err(Fail {
                check: "zero-prefix-hook-vs-feeding",
                details: format!("n = {} zero bytes\nhook state : {}\nreal feeding: {}", n, a, b),
            });
        }
        ctx.input();
        if n >= 2_000_000 || !ctx.alive() {
            break;
        }
        if n < 600 {
            fed.update_by_byte(0);
            n += 1;
        } else {
            // sampled larger sizes: feed a pseudo-random chunk of zeros
            let k = 1 + (ctx.rng.below(4096) as usize);
            fed.update(&zeros[..k.min(4096)]);
            n += k.min(4096) as u64;
        }
    }
    Ok(())
}

/// Sizes nobody can feed: the state after n zero bytes comes from the crate's verification hook.
#[cfg(a4lg_ffuzzy_verif)]
fn c13_huge(ctx: &mut Ctx, count: usize) -> R {
    for _ in 0..count {
        if !ctx.alive() {
            break;
        }
        let n = ctx.rng.range(8, 30) as u32;
        let border = 192u64 << n;
        let total: u64 = match ctx.rng.below(8) {
            0 => oracle::MAX_INPUT,
            1 => oracle::MAX_INPUT + 1,
            2 => oracle::MAX_INPUT + ctx.rng.below(4),
            3 => (96u64 << 30) + ctx.rng.below(5) - 2,
            _ => border + ctx.rng.below(5) - 2,
        };
        let lvl = *ctx.rng.pick(&[n as u8, n as u8 + 1, (n as u8).saturating_sub(1), 30, 29]);
        let pieces = *ctx.rng.pick(&[0usize, 1, 31, 32, 33, 64, 70]);
        let extra = ctx.rng.range(0, 40);
        let style = *ctx.rng.pick(&[4u8, 4, 0, 3, 1]);
        let suffix = gen::adversarial(&mut ctx.rng, pieces * 12 + extra, lvl.min(30), pieces, style);
        let zeros = total.saturating_sub(suffix.len() as u64);
        ctx.input();
        ctx.checks.insert("huge-size-vs-ctph");
        let res = guard(|| {
            let mut g: Generator = Generator::verif_after_zero_bytes(zeros);
            g.update(&suffix);
            diff_generator(&g, zeros, &suffix, true)
        });
        let d = match res {
            Ok(d) => d,
            Err(msg) => Some(("generator-panic", format!("real code: PANICKED: {}\noracle: never panics", msg))),
        };
        if let Some((check, what)) = d {
            return Err(Fail {
                check,
                details: format!("input: {} zero bytes followed by {}\n{}", zeros, show_bytes(&suffix), what),
            });
        }
    }
    Ok(())
}

// ---------------------------------------------------------------- C18

struct PlanReader<'a> {
    data: &'a [u8],
    pos: usize,
    sizes: Vec<usize>,
    reads: usize,
    fail_at: Option<(usize, std::io::ErrorKind)>,
    failed: bool,
}

impl std::io::Read for PlanReader<'_> {
    fn read(&mut self, buf: &mut [u8]) -> std::io::Result<usize> {
        let idx = self.reads;
        self.reads += 1;
        if let Some((at, kind)) = self.fail_at {
            if at == idx {
                self.failed = true;
                return Err(std::io::Error::new(kind, "planned failure"));
            }
        }
        let n = self.sizes[idx % self.sizes.len()].min(buf.len()).min(self.data.len() - self.pos);
        buf[..n].copy_from_slice(&self.data[self.pos..self.pos + n]);
        self.pos += n;
        Ok(n)
    }
}

fn stream_one(ctx: &mut Ctx, data: &[u8], desc: &str, with_fault: bool) -> R {
    use std::io::ErrorKind::*;
    let nsizes = ctx.rng.range(1, 5);
    let sizes: Vec<usize> = (0..nsizes).map(|_| *ctx.rng.pick(&[1usize, 1, 2, 7, 100, 4096, 32767, 32768, 40000, 1 << 20])).collect();
    let avg = (sizes.iter().map(|&s| s.min(32768)).sum::<usize>() / sizes.len()).max(1);
    let kind = *ctx.rng.pick(&[Other, Interrupted, UnexpectedEof, WouldBlock, TimedOut, BrokenPipe, InvalidData]);
    let fail_at = if with_fault { Some((ctx.rng.range(0, data.len() / avg + 2), kind)) } else { None };
    let mut rd = PlanReader { data, pos: 0, sizes: sizes.clone(), reads: 0, fail_at, failed: false };
    let input = format!("input {}: {}\nreader: read sizes cycle {:?}, failure {:?}", desc, show_bytes(data), sizes, fail_at);
    let r = ctx.nopanic("hash_stream-no-panic", || ssdeep::hash_stream(&mut rd), || input.clone())?;
    let shown = match &r {
        Ok(h) => format!("Ok({})", h),
        Err(e) => format!("Err({:?})", e),
    };
    if rd.failed {
        let ok = matches!(&r, Err(GeneratorOrIOError::IOError(e)) if e.kind() == kind);
        ctx.check("hash_stream-read-error-is-returned", ok, || {
            format!("{}\nreal code: hash_stream = {}\noracle: Err(IOError({:?})) (the error of read #{})", input, shown, kind, fail_at.unwrap().0)
        })
    } else {
        let want = oracle::ctph(0, &data[..rd.pos]).unwrap();
        let ok = match &r {
            Ok(h) => rd.pos == data.len() && h.is_valid() && h.log_block_size() == want.log_bs && h.block_hash_1() == &want.bh1[..] && h.block_hash_2() == &want.bh2_trunc[..],
            Err(_) => false,
        };
        ctx.check("hash_stream-short-reads-vs-ctph", ok, || {
            format!(
                "{}\nreal code: hash_stream = {} after consuming {} of {} bytes\noracle (reference CTPH of the delivered bytes): {}",
                input, shown, rd.pos, data.len(), text_of(want.log_bs, &want.bh1, &want.bh2_trunc)
            )
        })
    }
}

pub fn c18(ctx: &mut Ctx) -> R {
    files(ctx)?;
    let mut round = 0u32;
    while ctx.alive() {
        round += 1;
        // hash_file is "declare the metadata size, then stream": the fail-closed part of it is the
        // generator's size-mismatch contract (a file whose metadata disagrees with its content can
        // only be had from procfs, see files())
        if round % 4 == 1 {
            declared_vs_fed(ctx, "C18: what hash_file relies on when the delivered byte count differs from the declared size")?;
        }
        let max_n = if round % 6 == 0 { 10 } else { 4 };
        let (data, desc) = gen::gen_input(&mut ctx.rng, max_n);
        ctx.input();
        stream_one(ctx, &data, &desc, round % 3 != 0)?;
    }
    Ok(())
}

fn files(ctx: &mut Ctx) -> R {
    let dir = std::env::temp_dir();
    let path = dir.join(format!("replay-c18-{}-{}", std::process::id(), ctx.seed));
    let (data, desc) = gen::gen_input(&mut ctx.rng, 6);
    if std::fs::write(&path, &data).is_ok() {
        ctx.input();
        let r = ctx.nopanic("hash_file-no-panic", || ssdeep::hash_file(&path), || format!("file with {}", desc))?;
        let _ = std::fs::remove_file(&path);
        let want = oracle::ctph(0, &data).unwrap();
        let ok = matches!(&r, Ok(h) if h.log_block_size() == want.log_bs && h.block_hash_1() == &want.bh1[..] && h.block_hash_2() == &want.bh2_trunc[..]);
        ctx.check("hash_file-vs-ctph", ok, || {
            format!(
                "file content {}: {}\nreal code: hash_file = {:?}\noracle: {}",
                desc, show_bytes(&data), r.as_ref().map(|h| h.to_string()), text_of(want.log_bs, &want.bh1, &want.bh2_trunc)
            )
        })?;
        // missing file
        ctx.input();
        let r = ctx.nopanic("hash_file-no-panic", || ssdeep::hash_file(&path), || "missing file".to_string())?;
        ctx.check("hash_file-missing-is-error", r.is_err(), || {
            format!("path {:?} (does not exist)\nreal code: hash_file = {:?}\noracle: an error", path, r.as_ref().map(|h| h.to_string()))
        })?;
    }
    ctx.input();
    let r = ctx.nopanic("hash_file-no-panic", || ssdeep::hash_file(&dir), || "directory".to_string())?;
    ctx.check("hash_file-directory-is-error", r.is_err(), || {
        format!("path {:?} (a directory)\nreal code: hash_file = {:?}\noracle: an error", dir, r.as_ref().map(|h| h.to_string()))
    })?;
    // metadata size (0) disagrees with the content
    let p = std::path::Path::new("/proc/self/status");
    if let (Ok(meta), Ok(content)) = (std::fs::metadata(p), std::fs::read(p)) {
        if meta.len() != content.len() as u64 {
            ctx.input();
            let r = ctx.nopanic("hash_file-no-panic", || ssdeep::hash_file(p), || "procfs file".to_string())?;
            ctx.check("hash_file-size-mismatch-is-error", r.is_err(), || {
                format!(
                    "path {:?}: metadata size {}, content {} bytes\nreal code: hash_file = {:?}\noracle: an error, never a hash",
                    p, meta.len(), content.len(), r.as_ref().map(|h| h.to_string())
                )
            })?;
        }
    }
    Ok(())
}
