//! C19: rolling hash and partial FNV against their definitions.

use crate::gen;
use crate::oracle;
use crate::util::{show_bytes, Ctx, R};
use ssdeep::internal_hashes::{PartialFNVHash, RollingHash};

/// Feeds `data` step by step to one RollingHash and one PartialFNVHash (sometimes replaced by
/// a clone of themselves), choosing a form per step; compares after every step.
fn steps(ctx: &mut Ctx, data: &[u8]) -> R {
    let mut r = RollingHash::new();
    let mut f = PartialFNVHash::new();
    let mut fref = oracle::FNV_INIT;
    let mut pos = 0usize;
    let mut log = String::new();
    while pos < data.len() {
        let left = data.len() - pos;
        let want_array = ctx.rng.chance(1, 2);
        let k = if want_array { *ctx.rng.pick(&crate::util::ARRAY_NS) } else { ctx.rng.range(1, 24) }.min(left);
        let chunk = &data[pos..pos + k];
        let form = ctx.rng.below(8);
        let name: &str = if want_array && crate::add_array_std!(r, chunk) {
            crate::add_array_std!(f, chunk);
            "+=array"
        } else {
            match form {
                0 => {
                    r.update(chunk);
                    f.update(chunk);
                    "update"
                }
                1 => {
                    r.update_by_iter(chunk.iter().copied());
                    f.update_by_iter(chunk.iter().copied());
                    "update_by_iter"
                }
                2 => {
                    let (it, _) = gen::odd_iter(&mut ctx.rng, chunk);
                    r.update_by_iter(it);
                    let (it, _) = gen::odd_iter(&mut ctx.rng, chunk);
                    f.update_by_iter(it);
                    "update_by_iter(inexact hint)"
                }
                3 => {
                    r += chunk;
                    f += chunk;
                    "+=slice"
                }
                4 => {
                    for &b in chunk {
                        r += b;
                        f += b;
                    }
                    "+=u8"
                }
                5 => {
                    for &b in chunk {
                        r.update_by_byte(b);
                        f.update_by_byte(b);
                    }
                    "update_by_byte"
                }
                6 => {
                    // continue on clones
                    let (r2, f2) = (r.clone(), f.clone());
                    r = r2;
                    f = f2;
                    r.update(chunk);
                    f.update(chunk);
                    "clone;update"
                }
                _ => {
                    // chained calls on the returned &mut Self
                    r.update(&chunk[..k / 2]).update_by_iter(chunk[k / 2..].iter().copied());
                    f.update(&chunk[..k / 2]).update_by_iter(chunk[k / 2..].iter().copied());
                    "update().update_by_iter()"
                }
            }
        };
        pos += k;
        log.push_str(&format!("{}({}) ", name, k));
        if log.len() > 1500 {
            let cut = log.len() - 1200;
            log = format!("...{}", &log[log[cut..].find(' ').map_or(cut, |i| cut + i)..]);
        }
        fref = oracle::fnv32(fref, chunk);
        let want = oracle::roll_after(&data[..pos]);
        ctx.check("rolling-every-step-mixed-forms", r.value() == want, || {
            format!(
                "input: {}\nsteps so far on one RollingHash (form(bytes), the last one is the failing step): {}\nafter {} bytes\nreal code: RollingHash value {:#010x}\noracle: h1+h2+h3 over the last 7 bytes = {:#010x}",
                show_bytes(&data[..pos]), log, pos, r.value(), want
            )
        })?;
        ctx.check("fnv-every-step-mixed-forms", f.value() as u32 == (fref & 63), || {
            format!(
                "input: {}\nsteps so far on one PartialFNVHash: {}\nafter {} bytes\nreal code: PartialFNVHash value {}\noracle: {}",
                show_bytes(&data[..pos]), log, pos, f.value(), fref & 63
            )
        })?;
    }
    Ok(())
}

pub fn c19(ctx: &mut Ctx) -> R {
    // FNV step, exhaustively: all 64 states x 256 bytes (state reached by one leading byte)
    for first in 0u8..64 {
        for c in 0u16..256 {
            let c = c as u8;
            ctx.input();
            let mut h = PartialFNVHash::new();
            h.update_by_byte(first);
            let state = h.value();
            h.update_by_byte(c);
            let want = oracle::fnv6(&[first, c]);
            ctx.check("fnv-step-exhaustive", h.value() == want, || {
                format!(
                    "input bytes: {:02x} {:02x} (state after first byte = {})\nreal code: PartialFNVHash value {}\noracle: low 6 bits of FNV-1(0x28021967) = {}",
                    first, c, state, h.value(), want
                )
            })?;
        }
    }
    ctx.check("fnv-initial", PartialFNVHash::new().value() == 0x27, || {
        format!("real code: PartialFNVHash::new().value() = {}\noracle: 0x28021967 & 63 = 39", PartialFNVHash::new().value())
    })?;
    ctx.check("rolling-initial", RollingHash::new().value() == 0, || {
        format!("real code: RollingHash::new().value() = {}\noracle: 0", RollingHash::new().value())
    })?;
    let mut round = 0u64;
    while ctx.alive() {
        round += 1;
        let n = match round % 4 {
            0 => ctx.rng.range(0, 16),
            1 => ctx.rng.range(0, 300),
            _ => ctx.rng.range(0, 2000),
        };
        let mut data = Vec::new();
        let style = (round % 7) as u8;
        if style == 6 {
            data.extend(std::iter::repeat(0xffu8).take(n));
        } else {
            gen::fill(&mut ctx.rng, &mut data, n, style);
        }
        ctx.input();
        // every prefix, byte by byte, against a from-scratch recomputation
        let mut r = RollingHash::new();
        let mut f = PartialFNVHash::new();
        let mut fref = oracle::FNV_INIT;
        for i in 0..data.len() {
            r.update_by_byte(data[i]);
            f.update_by_byte(data[i]);
            fref = oracle::fnv32(fref, &data[i..i + 1]);
            let want = oracle::roll_after(&data[..i + 1]);
            ctx.check("rolling-prefix-by-byte", r.value() == want, || {
                format!(
                    "input: {}\nprefix length {}\nreal code: RollingHash (update_by_byte) value {:#010x}\noracle: h1+h2+h3 over the last 7 bytes = {:#010x}",
                    show_bytes(&data[..i + 1]), i + 1, r.value(), want
                )
            })?;
            ctx.check("fnv-prefix-by-byte", f.value() as u32 == (fref & 63), || {
                format!(
                    "input: {}\nreal code: PartialFNVHash (update_by_byte) value {}\noracle: {}",
                    show_bytes(&data[..i + 1]), f.value(), fref & 63
                )
            })?;
        }
        // every form mixed freely, the array forms `+= &[u8; N]` included, and ALWAYS more
        // updates afterwards: value() against the definition after every single step
        steps(ctx, &data)?;
        // the other update forms, over a random chunking
        let want_r = oracle::roll_after(&data);
        let want_f = oracle::fnv6(&data);
        let mut r1 = RollingHash::new();
        r1.update(&data);
        let mut r2 = RollingHash::new();
        r2.update_by_iter(data.iter().copied());
        let (it, odd_name) = gen::odd_iter(&mut ctx.rng, &data);
        let mut r4 = RollingHash::new();
        r4.update_by_iter(it);
        let (it, odd_name_f) = gen::odd_iter(&mut ctx.rng, &data);
        let mut f4 = PartialFNVHash::new();
        f4.update_by_iter(it);
        let mut r3 = RollingHash::new();
        let mut f1 = PartialFNVHash::new();
        f1.update(&data);
        let mut f2 = PartialFNVHash::new();
        f2.update_by_iter(data.iter().copied());
        let mut f3 = PartialFNVHash::new();
        let mut pos = 0;
        let mut forms = String::new();
        while pos < data.len() {
            let k = ctx.rng.range(1, 9).min(data.len() - pos);
            let chunk = &data[pos..pos + k];
            match ctx.rng.below(7) {
                5 | 6 => {
                    // iterators with inexact size hints, on objects that are already in use
                    let (it, _) = gen::odd_iter(&mut ctx.rng, chunk);
                    r3.update_by_iter(it);
                    let (it, _) = gen::odd_iter(&mut ctx.rng, chunk);
                    f3.update_by_iter(it);
                    forms.push('o');
                }
                0 => {
                    r3.update(chunk);
                    f3.update(chunk);
                    forms.push('u');
                }
                1 => {
                    r3.update_by_iter(chunk.iter().copied());
                    f3.update_by_iter(chunk.iter().copied());
                    forms.push('i');
                }
                2 => {
                    r3 += chunk;
                    f3 += chunk;
                    forms.push('+');
                }
                3 if k >= 3 => {
                    let arr: &[u8; 3] = &[chunk[0], chunk[1], chunk[2]];
                    r3 += arr;
                    f3 += arr;
                    r3.update(&chunk[3..]);
                    f3.update(&chunk[3..]);
                    forms.push('a');
                }
                _ => {
                    for &b in chunk {
                        if b & 1 == 0 {
                            r3 += b;
                            f3 += b;
                        } else {
                            r3.update_by_byte(b);
                            f3.update_by_byte(b);
                        }
                    }
                    forms.push('b');
                }
            }
            pos += k;
        }
        for (name, got) in [("update", r1.value()), ("update_by_iter", r2.value()), ("mixed forms (o = iterator with an inexact size hint)", r3.value()), (odd_name, r4.value())] {
            ctx.check("rolling-update-forms", got == want_r, || {
                format!(
                    "input: {}\nform: {} (chunk forms {})\nreal code: RollingHash value {:#010x}\noracle: {:#010x}",
                    show_bytes(&data), name, forms, got, want_r
                )
            })?;
        }
        for (name, got) in [("update", f1.value()), ("update_by_iter", f2.value()), ("mixed forms (o = iterator with an inexact size hint)", f3.value()), (odd_name_f, f4.value())] {
            ctx.check("fnv-update-forms", got == want_f, || {
                format!(
                    "input: {}\nform: {} (chunk forms {})\nreal code: PartialFNVHash value {}\noracle: {}",
                    show_bytes(&data), name, forms, got, want_f
                )
            })?;
        }
    }
    Ok(())
}
