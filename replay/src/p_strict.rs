//! C14 (only in a build of the library with its `strict-parser` feature): the strict parser
//! differs from the default one only by rejecting texts whose RAW block hash exceeds the
//! capacity, and the raw, normalizing and dual types accept exactly the same texts.
//!
//! The reference is `oracle::ref_parse` (which is the strict reference in this build); the
//! per-type comparison (acceptance, object, end index, error) is the C04 one.

use crate::gen;
use crate::oracle::{ref_parse_mode, B64};
use crate::p_text::c04_all;
use crate::util::{show_text, Ctx, R};
use ssdeep::{DualFuzzyHash, FuzzyHash, LongDualFuzzyHash, LongFuzzyHash, LongRawFuzzyHash, RawFuzzyHash};

/// One block hash text of exactly `raw_len` characters, shaped around the capacity `cap`.
fn block_text(ctx: &mut Ctx, raw_len: usize, cap: usize) -> Vec<u8> {
    let rng = &mut ctx.rng;
    let a = B64[rng.below(64) as usize];
    let distinct = |i: usize, off: usize| B64[(i * 7 + off) % 64];
    let off = rng.below(64) as usize;
    let mut v: Vec<u8> = match rng.below(7) {
        // no runs at all
        0 => (0..raw_len).map(|i| distinct(i, off)).collect(),
        // one run: collapses far below the capacity
        1 => vec![a; raw_len],
        // a run that ends exactly at the capacity (distinct before, maybe more after)
        2 => {
            let run = rng.range(4, 12).min(cap);
            (0..raw_len).map(|i| if i + run >= cap && i < cap { a } else { distinct(i, off) }).collect()
        }
        // a run crossing the capacity
        3 => {
            let start = cap.saturating_sub(rng.range(1, 6));
            (0..raw_len).map(|i| if i >= start { a } else { distinct(i, off) }).collect()
        }
        // runs whose collapsing saves exactly d characters: collapsed length just below / at / above the capacity
        4 => {
            let mut v: Vec<u8> = Vec::new();
            let mut i = 0usize;
            while v.len() < raw_len {
                let c = distinct(i, off);
                let run = if rng.chance(1, 6) { rng.range(4, 7) } else { 1 };
                for _ in 0..run.min(raw_len - v.len()) {
                    v.push(c);
                }
                i += 1;
            }
            v
        }
        // a run at the very start
        5 => {
            let run = rng.range(4, 9).min(raw_len);
            (0..raw_len).map(|i| if i < run { a } else { distinct(i, off) }).collect()
        }
        _ => gen::b64_text(&gen::bh_raw(rng, raw_len)),
    };
    v.truncate(raw_len);
    v
}

fn raw_len_around(ctx: &mut Ctx, cap: usize) -> usize {
    match ctx.rng.below(10) {
        0 => cap - 1,
        1 | 2 => cap,
        3 | 4 => cap + 1,
        5 => cap + ctx.rng.range(2, 9),
        6 => cap + ctx.rng.range(10, 80),
        7 => ctx.rng.range(0, 3),
        _ => gen::bh_len(&mut ctx.rng, cap),
    }
}

/// A hash text biased to the capacity edges of both block hashes (32 and 64 for block hash 2).
fn strict_text(ctx: &mut Ctx) -> Vec<u8> {
    let mut t = format!("{}:", 3u64 << gen::log_bs(&mut ctx.rng)).into_bytes();
    let l1 = if ctx.rng.chance(1, 2) { raw_len_around(ctx, 64) } else { gen::bh_len(&mut ctx.rng, 64) };
    let b1 = block_text(ctx, l1, 64);
    t.extend(b1);
    // an invalid character right after the block hash (interesting after exactly 64)
    if ctx.rng.chance(1, 10) {
        t.push(*ctx.rng.pick(b"=- \0\xff_"));
    }
    t.push(b':');
    let cap2 = if ctx.rng.chance(1, 2) { 32 } else { 64 };
    let l2 = if ctx.rng.chance(2, 3) { raw_len_around(ctx, cap2) } else { gen::bh_len(&mut ctx.rng, 64) };
    let b2 = block_text(ctx, l2, cap2);
    t.extend(b2);
    match ctx.rng.below(8) {
        0 => t.push(b','),
        1 => t.extend_from_slice(b",file name.txt"),
        2 => t.extend_from_slice(b",\"a,b:c\""),
        3 => t.push(*ctx.rng.pick(b"=- \0\xff_")),
        4 => t.push(b':'),
        _ => {}
    }
    t
}

fn one_text(ctx: &mut Ctx, t: &[u8]) -> R {
    // each of the six types against the strict reference: from_bytes, from_bytes_with_last_index,
    // str::parse; acceptance, object, end index, error kind / origin / offset
    c04_all(ctx, t)?;
    // all types agree on acceptance (modulo the capacity of block hash 2)
    let acc = ctx.nopanic("parse-never-panics", || {
        [
            FuzzyHash::from_bytes(t).is_ok(),
            RawFuzzyHash::from_bytes(t).is_ok(),
            DualFuzzyHash::from_bytes(t).is_ok(),
            LongFuzzyHash::from_bytes(t).is_ok(),
            LongRawFuzzyHash::from_bytes(t).is_ok(),
            LongDualFuzzyHash::from_bytes(t).is_ok(),
        ]
    }, || format!("text {}", show_text(t)))?;
    let long_ref = ref_parse_mode(t, 64, false, true);
    let fits_short = matches!(&long_ref, Ok((m, _)) if m.bh2.len() <= 32);
    let ok = acc[0] == acc[1] && acc[1] == acc[2] && acc[3] == acc[4] && acc[4] == acc[5] && (!acc[0] || acc[3]) && acc[3] == long_ref.is_ok() && acc[0] == fits_short;
    ctx.check("strict-all-types-accept-the-same-texts", ok, || {
        format!(
            "text {}\nreal code (strict parser) accepts: FuzzyHash {}, RawFuzzyHash {}, DualFuzzyHash {}, LongFuzzyHash {}, LongRawFuzzyHash {}, LongDualFuzzyHash {}\noracle: the three short types {} and the three long types {} (capacity counted on the raw text)",
            show_text(t), acc[0], acc[1], acc[2], acc[3], acc[4], acc[5], fits_short, long_ref.is_ok()
        )
    })?;
    // strict differs from the default parser only by the raw-length rule (statement check on the references,
    // so that the strict reference itself cannot drift): same verdict whenever the raw block hashes fit
    for (cap2, norm) in [(32usize, true), (32, false), (64, true), (64, false)] {
        let s = ref_parse_mode(t, cap2, norm, true);
        let d = ref_parse_mode(t, cap2, norm, false);
        let raw_fit = ref_parse_mode(t, cap2, false, false).is_ok();
        let consistent = match (&s, &d) {
            (Ok(a), Ok(b)) => a == b && raw_fit,
            (Err(_), Ok(_)) => !raw_fit,
            (Err(_), Err(_)) => true,
            (Ok(_), Err(_)) => false,
        };
        ctx.check("strict-reference-consistent-with-statement", consistent, || {
            format!("text {}\nreference parsers disagree with the statement (capacity {}, normalizing {}): strict {:?}, default {:?}", show_text(t), cap2, norm, s, d)
        })?;
    }
    Ok(())
}

pub fn c14_strict(ctx: &mut Ctx) -> R {
    // fixed edge corpus: exactly capacity-1 / capacity / capacity+1 with and without runs and tails
    let mut corpus: Vec<Vec<u8>> = Vec::new();
    for cap in [32usize, 64] {
        for n in [cap - 1, cap, cap + 1, cap + 4] {
            for shape in 0..3 {
                let body: Vec<u8> = match shape {
                    0 => (0..n).map(|i| B64[(i * 5 + 3) % 64]).collect(),
                    1 => vec![b'A'; n],
                    _ => (0..n).map(|i| if i + 5 >= cap && i < cap { b'z' } else { B64[(i * 5 + 3) % 64] }).collect(),
                };
                for tail in [&b""[..], b",", b",x", b"=", b":"] {
                    let mut t = b"3:".to_vec();
                    t.extend(&body);
                    t.push(b':');
                    t.extend_from_slice(tail);
                    corpus.push(t);
                    let mut t = b"6:abc:".to_vec();
                    t.extend(&body);
                    t.extend_from_slice(tail);
                    corpus.push(t);
                    let mut t = b"12:".to_vec();
                    t.extend(&body);
                    t.extend_from_slice(tail);
                    t.extend_from_slice(b":Q");
                    corpus.push(t);
                }
            }
        }
    }
    for t in &corpus {
        one_text(ctx, t)?;
    }
    let mut round = 0u32;
    while ctx.alive() {
        round += 1;
        let mut t = match round % 4 {
            0 => gen::hash_text(&mut ctx.rng),
            _ => strict_text(ctx),
        };
        if ctx.rng.chance(1, 4) {
            gen::mutate_text(&mut ctx.rng, &mut t);
        }
        one_text(ctx, &t)?;
    }
    Ok(())
}
