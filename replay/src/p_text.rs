//! C04, C05, C06, C07, C11, C15, C16: text form, normalization, dual hashes, conversions, order.

use crate::gen;
use crate::oracle::{self, collapse, ref_parse, EKind, EOrigin, Model, RefErr};
use crate::types::*;
use crate::util::{guard, show_text, Ctx, Fail, R};
use ssdeep::{
    DualFuzzyHash, FuzzyHash, FuzzyHashOperationError, LongDualFuzzyHash, LongFuzzyHash, LongRawFuzzyHash, ParseError,
    ParseErrorInfo, ParseErrorKind, ParseErrorOrigin, RawFuzzyHash,
};
use std::cmp::Ordering;
use std::hash::{Hash, Hasher};

const SENTINEL: usize = 0x5eed_1dea;

fn err_matches(e: &ParseError, r: &RefErr) -> bool {
    let k = match e.kind() {
        ParseErrorKind::BlockSizeIsEmpty => EKind::Empty,
        ParseErrorKind::BlockSizeStartsWithZero => EKind::LeadingZero,
        ParseErrorKind::BlockSizeIsInvalid => EKind::Invalid,
        ParseErrorKind::BlockSizeIsTooLarge => EKind::TooLarge,
        ParseErrorKind::BlockHashIsTooLong => EKind::TooLong,
        ParseErrorKind::UnexpectedCharacter => EKind::BadChar,
        ParseErrorKind::UnexpectedEndOfString => EKind::EndOfString,
        _ => return false,
    };
    let o = match e.origin() {
        ParseErrorOrigin::BlockSize => EOrigin::BlockSize,
        ParseErrorOrigin::BlockHash1 => EOrigin::BlockHash1,
        ParseErrorOrigin::BlockHash2 => EOrigin::BlockHash2,
    };
    let kind_ok = k == r.0 || (r.0 == EKind::BadCharOrTooLong && (k == EKind::BadChar || k == EKind::TooLong));
    kind_ok && o == r.1 && e.offset() == r.2
}

fn show_err(e: &ParseError) -> String {
    format!("Err(kind={:?}, origin={:?}, offset={})", e.kind(), e.origin(), e.offset())
}
fn show_plain<T: Plain>(r: &Result<T, ParseError>) -> String {
    match r {
        Ok(h) => format!("Ok({}) is_valid={}", h, h.valid()),
        Err(e) => show_err(e),
    }
}
fn show_dual<D: Dual>(r: &Result<D, ParseError>) -> String {
    match r {
        Ok(h) => format!("Ok({}) is_valid={}", h, h.valid()),
        Err(e) => show_err(e),
    }
}
fn show_want(w: &Result<(Model, usize), RefErr>) -> String {
    match w {
        Ok((m, end)) => format!("accept: {} , end index {}", m.text(), end),
        Err(e) => format!("reject: {:?} in {:?} at offset {}", e.0, e.1, e.2),
    }
}

fn hash_of<T: Hash>(x: &T) -> u64 {
    let mut h = std::collections::hash_map::DefaultHasher::new();
    x.hash(&mut h);
    h.finish()
}

// ---------------------------------------------------------------- C04

fn c04_plain<T: Plain>(ctx: &mut Ctx, text: &[u8]) -> R {
    let want = ref_parse(text, T::CAP2, T::NORM);
    let input = || format!("type {}, text {}", T::NAME, show_text(text));
    let mut idx = SENTINEL;
    let got = ctx.nopanic("parse-never-panics", || T::parse_idx(text, &mut idx), input)?;
    let ok = match (&got, &want) {
        (Ok(h), Ok((m, end))) => h.valid_both() && h.model() == *m && idx == *end && h.bs() as u64 == 3u64 << m.log_bs,
        (Err(e), Err(r)) => idx == SENTINEL && err_matches(e, r),
        _ => false,
    };
    ctx.check("parse-vs-grammar", ok, || {
        format!(
            "{}\nreal code: from_bytes_with_last_index = {}, index {}\noracle (grammar{}): {} (index untouched on failure)",
            input(), show_plain(&got), if idx == SENTINEL { "untouched".to_string() } else { idx.to_string() },
            if oracle::STRICT { ", strict parser: capacity counted on the raw text" } else { "" }, show_want(&want)
        )
    })?;
    let got2 = ctx.nopanic("parse-never-panics", || T::parse(text), input)?;
    ctx.check("from_bytes-agrees-with-indexed-form", got2 == got, || {
        format!("{}\nreal code: from_bytes = {}\noracle: same as from_bytes_with_last_index = {}", input(), show_plain(&got2), show_plain(&got))
    })?;
    if let Ok(s) = std::str::from_utf8(text) {
        let got3 = ctx.nopanic("parse-never-panics", || s.parse::<T>(), input)?;
        ctx.check("from_str-agrees-with-from_bytes", got3 == got, || {
            format!("{}\nreal code: str::parse = {}\noracle: same as from_bytes = {}", input(), show_plain(&got3), show_plain(&got))
        })?;
    }
    // text round trip (C05): what was accepted prints as the (collapsed) text up to the comma
    if let (Ok(h), Ok((m, _))) = (&got, &want) {
        let s = ctx.nopanic("to_string-never-panics", || h.str_(), input)?;
        ctx.check("parse-then-format", s == m.text(), || {
            format!("{}\nreal code: parsed object prints as {}\noracle: {}", input(), s, m.text())
        })?;
    }
    Ok(())
}

fn c04_dual<D: Dual>(ctx: &mut Ctx, text: &[u8]) -> R {
    let want = ref_parse(text, D::Raw::CAP2, false);
    let input = || format!("type {}, text {}", D::NAME, show_text(text));
    let mut idx = SENTINEL;
    let got = ctx.nopanic("parse-never-panics", || D::parse_idx(text, &mut idx), input)?;
    let ok = match (&got, &want) {
        (Ok(h), Ok((m, end))) => {
            h.valid() && idx == *end && guard(|| h.to_raw().model() == *m && h.as_norm().model() == m.normalized()).unwrap_or(false)
        }
        (Err(e), Err(r)) => idx == SENTINEL && err_matches(e, r),
        _ => false,
    };
    ctx.check("parse-vs-grammar", ok, || {
        format!(
            "{}\nreal code: from_bytes_with_last_index = {}, index {}\noracle (grammar, capacity counted on the raw text): {}",
            input(), show_dual(&got), if idx == SENTINEL { "untouched".to_string() } else { idx.to_string() }, show_want(&want)
        )
    })?;
    let got2 = ctx.nopanic("parse-never-panics", || D::parse(text), input)?;
    ctx.check("from_bytes-agrees-with-indexed-form", got2 == got, || {
        format!("{}\nreal code: from_bytes = {}\noracle: same as from_bytes_with_last_index = {}", input(), show_dual(&got2), show_dual(&got))
    })
}

pub fn c04_all(ctx: &mut Ctx, text: &[u8]) -> R {
    ctx.input();
    c04_plain::<FuzzyHash>(ctx, text)?;
    c04_plain::<RawFuzzyHash>(ctx, text)?;
    c04_plain::<LongFuzzyHash>(ctx, text)?;
    c04_plain::<LongRawFuzzyHash>(ctx, text)?;
    c04_dual::<DualFuzzyHash>(ctx, text)?;
    c04_dual::<LongDualFuzzyHash>(ctx, text)
}

pub fn c04(ctx: &mut Ctx) -> R {
    // fixed corpus: every spelling class of the block size, capacity edges
    let mut corpus: Vec<Vec<u8>> = vec![
        b"".to_vec(), b":".to_vec(), b"::".to_vec(), b"3".to_vec(), b"3:".to_vec(), b"3::".to_vec(), b"3::,".to_vec(),
        b"0::".to_vec(), b"03::".to_vec(), b"4::".to_vec(), b"3:::".to_vec(), b"3:,:".to_vec(), b"3:a,b:".to_vec(),
        b"3:a:b:c".to_vec(), b"4294967296::".to_vec(), b"6442450944::".to_vec(), b"3221225472::".to_vec(), b"3 ::".to_vec(),
        b"3:=:".to_vec(), b"3:a:=".to_vec(), b"x".to_vec(), b"3x".to_vec(), b"99999999999999999999x".to_vec(),
    ];
    for n in [31usize, 32, 33, 63, 64, 65, 66, 67, 68, 69, 100] {
        for c in [b'A', b'b'] {
            let run: Vec<u8> = std::iter::repeat(c).take(n).collect();
            let mut t = b"3:".to_vec();
            t.extend(&run);
            t.push(b':');
            corpus.push(t.clone());
            let mut t2 = b"6::".to_vec();
            t2.extend(&run);
            corpus.push(t2);
            // distinct characters: no collapsing
            let distinct: Vec<u8> = (0..n).map(|i| oracle::B64[(i * 7 + 1) % 64]).collect();
            let mut t3 = b"12:".to_vec();
            t3.extend(&distinct);
            t3.push(b':');
            t3.extend(&distinct);
            corpus.push(t3);
        }
    }
    for n in 0..31u32 {
        corpus.push(format!("{}:AAAB:CCCCD,x", 3u64 << n).into_bytes());
    }
    for t in &corpus {
        c04_all(ctx, t)?;
    }
    while ctx.alive() {
        let mut t = gen::hash_text(&mut ctx.rng);
        if ctx.rng.chance(1, 3) {
            gen::mutate_text(&mut ctx.rng, &mut t);
        }
        c04_all(ctx, &t)?;
    }
    Ok(())
}

// ---------------------------------------------------------------- C05

fn c05_plain<T: Plain>(ctx: &mut Ctx, m: &Model) -> R {
    let want = m.text();
    let input = || format!("type {}, hash {}", T::NAME, want);
    let h = ctx.nopanic("constructor-in-contract", || T::of(m), input)?;
    ctx.check("object-valid", h.valid_both() && h.model() == *m, || {
        format!("{}\nreal code: new_from_internals gave {} (is_valid={})\noracle: a valid object holding exactly these symbols", input(), h, h.valid())
    })?;
    let s = ctx.nopanic("to_string-never-panics", || h.str_(), input)?;
    let d = ctx.nopanic("to_string-never-panics", || format!("{}", h), input)?;
    let f = ctx.nopanic("to_string-never-panics", || h.into_string(), input)?;
    ctx.check("to_string-vs-formatter", s == want && d == want && f == want, || {
        format!("{}\nreal code: to_string() = {:?}, Display = {:?}, String::from = {:?}\noracle: {:?}", input(), s, d, f, want)
    })?;
    // the formatting trait ignores width / precision / alignment / fill: always that same text
    let specs = ctx.nopanic("to_string-never-panics", || format_specs(&h), input)?;
    for (spec, got) in &specs {
        ctx.check("display-with-format-spec", *got == want, || {
            format!("{}\nformat spec: {}\nreal code: Display gives {:?}\noracle: the same text as to_string(): {:?}", input(), spec, got, want)
        })?;
    }
    let l = h.len_str();
    ctx.check("advertised-length", l == want.len() && l <= T::MAX_STR, || {
        format!("{}\nreal code: len_in_str() = {}, MAX_LEN_IN_STR = {}\noracle: {} (and not above the maximum)", input(), l, T::MAX_STR, want.len())
    })?;
    // caller-buffer form with every buffer length
    for n in 0..=T::MAX_STR + 8 {
        let mut buf = vec![0xAAu8; n];
        let r = ctx.nopanic("store_into_bytes-never-panics", || h.store(&mut buf), || format!("{}, buffer of {} bytes", input(), n))?;
        let ok = if n < want.len() {
            r == Err(FuzzyHashOperationError::StringizationOverflow) && buf.iter().all(|&b| b == 0xAA)
        } else {
            r == Ok(want.len()) && &buf[..want.len()] == want.as_bytes() && buf[want.len()..].iter().all(|&b| b == 0xAA)
        };
        ctx.check("store_into_bytes-contract", ok, || {
            format!(
                "{}, buffer of {} bytes pre-filled with 0xAA\nreal code: store_into_bytes = {:?}, buffer now {}\noracle: {}",
                input(), n, r, show_text(&buf),
                if n < want.len() { "Err(StringizationOverflow), buffer untouched".to_string() } else { format!("Ok({}), text at the front, rest untouched", want.len()) }
            )
        })?;
    }
    let back = ctx.nopanic("parse-never-panics", || T::parse(want.as_bytes()), input)?;
    ctx.check("text-round-trip", matches!(&back, Ok(b) if *b == h && b.model() == *m && b.feq(&h)), || {
        format!("{}\nreal code: parsing the printed text gives {}\noracle: an object equal to the original", input(), show_plain(&back))
    })
}

/// Display under a few width / precision / alignment / fill specifications.
fn format_specs<T: std::fmt::Display>(h: &T) -> Vec<(&'static str, String)> {
    vec![
        ("{:5}", format!("{:5}", h)),
        ("{:.60}", format!("{:.60}", h)),
        ("{:.0}", format!("{:.0}", h)),
        ("{:.3}", format!("{:.3}", h)),
        ("{:<120}", format!("{:<120}", h)),
        ("{:>80}", format!("{:>80}", h)),
        ("{:^90}", format!("{:^90}", h)),
        ("{:*^200}", format!("{:*^200}", h)),
        ("{:0>150}", format!("{:0>150}", h)),
        ("{:->300.10}", format!("{:->300.10}", h)),
        ("{:w$.p$} (w=160, p=7)", format!("{:w$.p$}", h, w = 160, p = 7)),
    ]
}

/// The dual types' Display ("{normalized|raw}") under format specifications and against its parts.
fn c05_dual<D: Dual>(ctx: &mut Ctx, m: &Model) -> R {
    let input = || format!("type {}, raw hash {}", D::NAME, m.text());
    let obs = ctx.nopanic("to_string-never-panics", || {
        let d = D::from_raw(&D::Raw::of(m));
        (format!("{}", d), d.to_string(), format_specs(&d), d.norm_string(), d.raw_string())
    }, input)?;
    let want = format!("{{{}|{}}}", m.normalized().text(), m.text());
    ctx.check("dual-display", obs.0 == want && obs.1 == want && obs.3 == m.normalized().text() && obs.4 == m.text(), || {
        format!("{}\nreal code: Display {:?}, to_string {:?}, to_normalized_string {:?}, to_raw_form_string {:?}\noracle: {:?}", input(), obs.0, obs.1, obs.3, obs.4, want)
    })?;
    for (spec, got) in &obs.2 {
        ctx.check("display-with-format-spec", *got == want, || {
            format!("{}\nformat spec: {}\nreal code: Display gives {:?}\noracle: the same text as to_string(): {:?}", input(), spec, got, want)
        })?;
    }
    Ok(())
}

pub fn c05(ctx: &mut Ctx) -> R {
    while ctx.alive() {
        ctx.input();
        let m = gen::model_raw(&mut ctx.rng, 32);
        c05_plain::<RawFuzzyHash>(ctx, &m)?;
        c05_plain::<LongRawFuzzyHash>(ctx, &m)?;
        c05_plain::<FuzzyHash>(ctx, &m.normalized())?;
        let ml = gen::model_raw(&mut ctx.rng, 64);
        c05_plain::<LongRawFuzzyHash>(ctx, &ml)?;
        c05_plain::<LongFuzzyHash>(ctx, &ml.normalized())?;
        let mn = gen::model_norm(&mut ctx.rng, 64);
        c05_plain::<LongFuzzyHash>(ctx, &mn)?;
        c05_dual::<DualFuzzyHash>(ctx, &m)?;
        c05_dual::<LongDualFuzzyHash>(ctx, &ml)?;
        // edge shapes: empty, up to 3 symbols, exactly capacity, block hash 1 empty
        let e = gen::model_second(&mut ctx.rng, 32);
        c05_plain::<RawFuzzyHash>(ctx, &e)?;
        c05_plain::<FuzzyHash>(ctx, &e.normalized())?;
        c05_dual::<DualFuzzyHash>(ctx, &e)?;
        let e = gen::model_second(&mut ctx.rng, 64);
        c05_plain::<LongRawFuzzyHash>(ctx, &e)?;
        c05_plain::<LongFuzzyHash>(ctx, &e.normalized())?;
        c05_dual::<LongDualFuzzyHash>(ctx, &e)?;
        // accepted texts (with optional comma part) survive: covered per text by C04's parse-then-format
        let t = gen::hash_text(&mut ctx.rng);
        c04_plain::<RawFuzzyHash>(ctx, &t)?;
        c04_plain::<LongRawFuzzyHash>(ctx, &t)?;
        c04_plain::<FuzzyHash>(ctx, &t)?;
        c04_plain::<LongFuzzyHash>(ctx, &t)?;
        // byte-level mutations (incl. leading/trailing white space): whatever a text entry point accepts must format back
        let mut tm = t.clone();
        gen::mutate_text(&mut ctx.rng, &mut tm);
        c04_plain::<RawFuzzyHash>(ctx, &tm)?;
        c04_plain::<LongRawFuzzyHash>(ctx, &tm)?;
        c04_plain::<FuzzyHash>(ctx, &tm)?;
        c04_plain::<LongFuzzyHash>(ctx, &tm)?;
    }
    Ok(())
}

// ---------------------------------------------------------------- C06

fn c06_family<F: Family>(ctx: &mut Ctx, m: &Model) -> R {
    let want = m.normalized();
    let input = || format!("raw hash {} ({})", m.text(), F::Raw::NAME);
    let raw = ctx.nopanic("constructor-in-contract", || F::Raw::of(m), input)?;
    let mut routes: Vec<(&'static str, Model, bool)> = Vec::new();
    let r = ctx.nopanic("normalize-never-panics", || {
        let n = F::normalize(&raw);
        let mut v = vec![("normalize()", n.model(), n.valid_both())];
        let c = raw.clone_norm();
        v.push(("clone_normalized()", c.model(), c.valid_both()));
        let mut ip = raw;
        ip.norm_in_place();
        v.push(("normalize_in_place()", ip.model(), ip.valid_both() && ip.feq(&c)));
        let n2 = F::from_raw_form(&raw);
        v.push(("from_raw_form()", n2.model(), n2.valid() && n2.feq(&n)));
        let n3 = F::norm_from(raw);
        v.push(("From<raw>", n3.model(), n3.valid() && n3.feq(&n)));
        let nn = F::normalize_norm(&n);
        v.push(("normalize() twice", nn.model(), nn.valid() && nn.feq(&n)));
        let mut n4 = n;
        n4.norm_in_place();
        v.push(("normalize() then normalize_in_place()", n4.model(), n4.valid() && n4.feq(&n)));
        let cc = c.clone_norm();
        v.push(("clone_normalized() twice", cc.model(), cc.valid() && cc.feq(&c)));
        let d = F::D::from_raw(&raw);
        v.push(("dual.as_normalized()", d.as_norm().model(), d.valid() && d.as_norm().feq(&n)));
        v.push(("dual.to_normalized()", d.to_norm().model(), d.to_norm().feq(&n)));
        match F::Norm::parse(m.text().as_bytes()) {
            Ok(p) => v.push(("parsing the raw text into the normalizing type", p.model(), p.valid() && p.feq(&n))),
            Err(_) => v.push(("parsing the raw text into the normalizing type", Model { log_bs: 255, bh1: vec![], bh2: vec![] }, false)),
        }
        (v, raw.is_norm(), n.is_norm())
    }, input)?;
    routes.extend(r.0);
    for (route, got, ok) in &routes {
        ctx.check("normalization-route", *got == want && *ok, || {
            format!(
                "{}\nroute: {}\nreal code: {} (valid and identical to the normalize() result: {})\noracle (runs > 3 collapsed to 3): {}",
                input(), route, got.text(), ok, want.text()
            )
        })?;
    }
    ctx.check("is_normalized-query", r.1 == (*m == want) && r.2, || {
        format!(
            "{}\nreal code: raw.is_normalized() = {}, normalized.is_normalized() = {}\noracle: {}, true",
            input(), r.1, r.2, *m == want
        )
    })
}

/// Re-initialisation of used objects: everything that can be overwritten is first given
/// `first` (long, run-rich) and then `second` (often tiny); the result must be
/// indistinguishable from the fresh route.
fn reinit_family<F: Family>(ctx: &mut Ctx, first: &Model, second: &Model) -> R {
    let input = || format!("first content {} , then overwritten with {} ({} / {})", first.text(), second.text(), <F::D as Dual>::NAME, F::Raw::NAME);
    let want_raw = second.clone();
    let want_norm = second.normalized();
    let obs = ctx.nopanic("reinitialisation-never-panics", || {
        let raw1 = F::Raw::of(first);
        let raw2 = F::Raw::of(second);
        let norm2 = F::normalize(&raw2);
        let fresh = F::D::from_raw(&raw2);
        let mut v: Vec<(&'static str, bool, String)> = Vec::new();
        // dual re-initialised from a raw hash
        let mut d = F::D::from_raw(&raw1);
        d.init_from_raw(&raw2);
        let same = d == fresh && d.cmp(&fresh) == Ordering::Equal && fresh.cmp(&d) == Ordering::Equal && hash_of(&d) == hash_of(&fresh);
        let parts = d.valid()
            && d.to_raw().feq(&raw2) && d.to_raw().valid_both()
            && d.as_norm().feq(&norm2) && d.to_norm().feq(&norm2) && d.as_norm().valid_both()
            && d.raw_string() == want_raw.text() && d.norm_string() == want_norm.text()
            && d.is_norm() == fresh.is_norm() && format!("{:?}", d) == format!("{:?}", fresh) && format!("{}", d) == format!("{}", fresh);
        v.push(("dual.init_from_raw_form over a used dual", same && parts, format!("{:?} (is_valid={}, == fresh {}, cmp {:?}, to_raw_form {}, normalized {})", d, d.valid(), d == fresh, d.cmp(&fresh), d.to_raw(), d.as_norm())));
        // twice: first -> second -> first -> second
        let mut d2 = F::D::from_raw(&raw2);
        d2.init_from_raw(&raw1);
        let back_ok = d2 == F::D::from_raw(&raw1) && d2.valid() && d2.to_raw().feq(&raw1);
        d2.init_from_raw(&raw2);
        v.push(("dual.init_from_raw_form back and forth", back_ok && d2 == fresh && d2.valid() && d2.to_raw().feq(&raw2), format!("{:?}", d2)));
        // dual normalized in place after re-initialisation
        let mut d3 = d;
        d3.norm_in_place();
        v.push(("normalize_in_place after re-initialisation", d3 == F::D::from_norm(&norm2) && d3.valid() && d3.to_raw().model() == want_norm, format!("{:?}", d3)));
        // expanding into a used raw object
        let mut r = raw1;
        fresh.into_mut_raw(&mut r);
        v.push(("dual.into_mut_raw_form into a used raw hash", r.feq(&raw2) && r.valid_both() && r == raw2, format!("{} (is_valid={})", r, r.valid())));
        let mut r = raw1;
        F::D::from_raw(&raw1).into_mut_raw(&mut r);
        let mut r2 = r;
        F::D::from_norm(&norm2).into_mut_raw(&mut r2);
        v.push(("dual(from_normalized).into_mut_raw_form into a used raw hash", r.feq(&raw1) && r2.model() == want_norm && r2.valid_both() && r2.feq(&F::to_raw_form(&norm2)), format!("{} (is_valid={})", r2, r2.valid())));
        // normalized -> used raw object
        let mut r = raw1;
        F::into_mut_raw_form(&norm2, &mut r);
        v.push(("into_mut_raw_form into a used raw hash", r.feq(&F::to_raw_form(&norm2)) && r.valid_both() && r.model() == want_norm, format!("{} (is_valid={})", r, r.valid())));
        // in-place normalization of a copy of the used object re-filled through the array initialiser
        let mut a = raw1;
        a.init_arrays(raw2.lb(), raw2.arr1(), raw2.arr2(), raw2.l1() as u8, raw2.l2() as u8);
        let a_ok = a.feq(&raw2) && a.valid_both();
        a.norm_in_place();
        v.push(("init_from_internals_raw over a used raw hash, then normalize_in_place", a_ok && a.model() == want_norm && a.valid_both() && a.feq(&raw2.clone_norm()), format!("{} (is_valid={})", a, a.valid())));
        let mut n = F::normalize(&raw1);
        n.init_arrays(norm2.lb(), norm2.arr1(), norm2.arr2(), norm2.l1() as u8, norm2.l2() as u8);
        v.push(("init_from_internals_raw over a used normalized hash", n.feq(&norm2) && n.valid_both(), format!("{} (is_valid={})", n, n.valid())));
        v
    }, input)?;
    for (route, ok, shown) in &obs {
        ctx.check("reinitialised-equals-fresh", *ok, || {
            format!("{}\nroute: {}\nreal code: {}\noracle: indistinguishable from the object built freshly from {} (normalized {})", input(), route, shown, want_raw.text(), want_norm.text())
        })?;
    }
    Ok(())
}

/// The same for the short <-> long conversions into used destinations.
fn reinit_width<W: Width>(ctx: &mut Ctx, first_s: &Model, first_l: &Model, second: &Model) -> R {
    let input = || format!("destinations first hold {} (short) / {} (long), then receive {} ({} / {})", first_s.text(), first_l.text(), second.text(), W::Short::NAME, W::Long::NAME);
    let obs = ctx.nopanic("reinitialisation-never-panics", || {
        let s2 = W::Short::of(second);
        let l2 = W::to_long_form(&s2);
        let mut v: Vec<(&'static str, bool, String)> = Vec::new();
        let mut l = W::Long::of(first_l);
        W::into_mut_long_form(&s2, &mut l);
        v.push(("into_mut_long_form into a used long hash", l.feq(&l2) && l.valid_both() && l.model() == *second && l == l2, format!("{} (is_valid={})", l, l.valid())));
        let mut s = W::Short::of(first_s);
        let r = W::try_into_mut_short(&l2, &mut s);
        v.push(("try_into_mut_short into a used short hash", r.is_ok() && s.feq(&s2) && s.valid_both() && s == s2, format!("{:?}, {} (is_valid={})", r, s, s.valid())));
        // a long source that does not fit must leave the used destination alone
        let big = W::Long::of(first_l);
        let mut s = s2;
        let r = W::try_into_mut_short(&big, &mut s);
        let fits = first_l.bh2.len() <= 32;
        v.push(("try_into_mut_short of a long hash into a used short hash", if fits { r.is_ok() && s.model() == *first_l && s.valid_both() } else { r.is_err() && s.feq(&s2) }, format!("{:?}, {} (is_valid={})", r, s, s.valid())));
        v
    }, input)?;
    for (route, ok, shown) in &obs {
        ctx.check("reinitialised-equals-fresh", *ok, || {
            format!("{}\nroute: {}\nreal code: {}\noracle: the destination is indistinguishable from a fresh conversion result (or untouched when the source does not fit)", input(), route, shown)
        })?;
    }
    Ok(())
}

/// One round of overwriting used objects, all families and widths.
fn reinit_round(ctx: &mut Ctx) -> R {
    let f_s = gen::model_rich(&mut ctx.rng, 32);
    let f_l = gen::model_rich(&mut ctx.rng, 64);
    let s_s = gen::model_second(&mut ctx.rng, 32);
    let s_l = gen::model_second(&mut ctx.rng, 64);
    reinit_family::<ShortFamily>(ctx, &f_s, &s_s)?;
    reinit_family::<LongFamily>(ctx, &f_l, &s_l)?;
    // and the other way round: a rich hash over a tiny one
    reinit_family::<ShortFamily>(ctx, &s_s, &f_s)?;
    reinit_family::<LongFamily>(ctx, &s_l, &f_l)?;
    reinit_width::<RawWidth>(ctx, &f_s, &f_l, &s_s)?;
    reinit_width::<NormWidth>(ctx, &f_s.normalized(), &f_l.normalized(), &s_s.normalized())
}

pub fn c06(ctx: &mut Ctx) -> R {
    // a run of every length at every position (short strings around it)
    'outer: for len in 1..=64usize {
        for pos in [0usize, 1, 5, 31, 63] {
            if pos + len > 64 {
                continue;
            }
            if !ctx.alive() {
                break 'outer;
            }
            ctx.input();
            let mut bh1: Vec<u8> = (0..pos).map(|i| (i % 5 + 1) as u8).collect();
            bh1.extend(std::iter::repeat(9u8).take(len));
            let tail = (64 - pos - len).min(3);
            bh1.extend((0..tail).map(|i| (i + 20) as u8));
            let mut bh2 = bh1.clone();
            bh2.truncate(32);
            let m = Model { log_bs: (len % 31) as u8, bh1: bh1.clone(), bh2 };
            c06_family::<ShortFamily>(ctx, &m)?;
            let ml = Model { log_bs: (pos % 31) as u8, bh1: bh1.clone(), bh2: bh1 };
            c06_family::<LongFamily>(ctx, &ml)?;
        }
    }
    while ctx.alive() {
        ctx.input();
        let m = gen::model_raw(&mut ctx.rng, 32);
        c06_family::<ShortFamily>(ctx, &m)?;
        let m = gen::model_raw(&mut ctx.rng, 64);
        c06_family::<LongFamily>(ctx, &m)?;
        let m = gen::model_second(&mut ctx.rng, 32);
        c06_family::<ShortFamily>(ctx, &m)?;
        let m = gen::model_rich(&mut ctx.rng, 64);
        c06_family::<LongFamily>(ctx, &m)?;
        reinit_round(ctx)?;
    }
    Ok(())
}

// ---------------------------------------------------------------- C07

fn c07_family<F: Family>(ctx: &mut Ctx, m: &Model, other: &Model) -> R {
    let input = || format!("raw hash {} ({})", m.text(), <F::D as Dual>::NAME);
    let raw = ctx.nopanic("constructor-in-contract", || F::Raw::of(m), input)?;
    let raw_other = ctx.nopanic("constructor-in-contract", || F::Raw::of(other), input)?;
    let wantn = m.normalized();
    type Row<D> = (&'static str, D);
    let routes: Vec<Row<F::D>> = ctx.nopanic("dual-construction-never-panics", || {
        let mut v: Vec<Row<F::D>> = Vec::new();
        v.push(("from_raw_form", F::D::from_raw(&raw)));
        v.push(("From<raw>", F::D::from_raw_value(raw)));
        v.push(("new_from_internals", F::D::build(3u32 << m.log_bs, &m.bh1, &m.bh2)));
        v.push(("new_from_internals_near_raw", F::D::build_near_raw(m.log_bs, &m.bh1, &m.bh2)));
        let mut dirty = F::D::from_raw(&raw_other);
        dirty.init_from_raw(&raw);
        v.push(("init_from_raw_form over a used object", dirty));
        if let Ok(p) = F::D::parse(m.text().as_bytes()) {
            v.push(("parsing the raw text", p));
        }
        v
    }, input)?;
    ctx.check("dual-parse-accepts-raw-text", routes.len() == 6, || {
        format!("{}\nreal code: parsing the text as a dual hash failed\noracle: every raw hash text parses", input())
    })?;
    let first = routes[0].1;
    for (route, d) in &routes {
        let obs = ctx.nopanic("dual-accessors-never-panic", || {
            let back = d.to_raw();
            let mut dirty = raw_other;
            d.into_mut_raw(&mut dirty);
            (d.valid() && d.as_norm().valid_both(), back.model(), back.valid_both(), dirty.feq(&back), d.raw_string(), d.as_norm().model(), d.to_norm().model(), d.norm_string(), d.is_norm(), d.lb(), d.bs())
        }, || format!("{}, route {}", input(), route))?;
        let ok = obs.0 && obs.1 == *m && obs.2 && obs.3 && obs.4 == m.text() && obs.5 == wantn && obs.6 == wantn && obs.7 == wantn.text()
            && obs.8 == (*m == wantn) && obs.9 == m.log_bs && obs.10 as u64 == 3u64 << m.log_bs;
        ctx.check("dual-is-lossless", ok, || {
            format!(
                "{}\nroute: {}\nreal code: is_valid={}, to_raw_form={} (valid={}, into_mut_raw_form over a used object identical={}), to_raw_form_string={}, as_normalized={}, to_normalized={}, to_normalized_string={}, is_normalized={}, log_block_size={}\noracle: valid, raw {} , normalized {} , is_normalized={}",
                input(), route, obs.0, obs.1.text(), obs.2, obs.3, obs.4, obs.5.text(), obs.6.text(), obs.7, obs.8, obs.9,
                m.text(), wantn.text(), *m == wantn
            )
        })?;
        let same = *d == first && d.cmp(&first) == Ordering::Equal && hash_of(d) == hash_of(&first);
        ctx.check("dual-canonical-across-routes", same, || {
            format!(
                "{}\nroute {} vs route {}\nreal code: == {}, cmp {:?}, equal Hash output {}\noracle: equal, Equal, equal (same raw hash)\nobjects: {:?}\n     vs: {:?}",
                input(), route, routes[0].0, *d == first, d.cmp(&first), hash_of(d) == hash_of(&first), d, first
            )
        })?;
    }
    // equality iff raw hashes equal
    let d_other = ctx.nopanic("dual-construction-never-panics", || F::D::from_raw(&raw_other), input)?;
    let eq = first == d_other;
    let ord = first.cmp(&d_other);
    ctx.check("dual-equality-iff-raw-equal", eq == (m == other) && (ord == Ordering::Equal) == (m == other) && (!eq || hash_of(&first) == hash_of(&d_other)), || {
        format!(
            "raw hashes {} and {} ({})\nreal code: duals == {}, cmp {:?}\noracle: equal exactly when the raw hashes are equal: {}",
            m.text(), other.text(), <F::D as Dual>::NAME, eq, ord, m == other
        )
    })?;
    // clearing the reverse-normalization data gives the dual of the normalized hash
    let obs = ctx.nopanic("dual-normalize-never-panics", || {
        let mut c = first;
        c.norm_in_place();
        let n = F::normalize(&raw);
        let via_norm = F::D::from_norm(&n);
        let via_norm_value = F::D::from_norm_value(n);
        let via_raw = F::D::from_raw(&F::to_raw_form(&n));
        (c.valid(), c.is_norm(), c == via_norm, c == via_raw, c == via_norm_value, c.to_raw().model(), c.as_norm().model(), format!("{:?}", c))
    }, input)?;
    ctx.check("dual-normalize-in-place", obs.0 && obs.1 && obs.2 && obs.3 && obs.4 && obs.5 == wantn && obs.6 == wantn, || {
        format!(
            "{}\nreal code after normalize_in_place: is_valid={}, is_normalized={}, == from_normalized(norm) {}, == from_raw_form(norm as raw) {}, == From<norm> {}, raw form {}, normalized {}\nobject: {}\noracle: the dual of the normalized hash {}",
            input(), obs.0, obs.1, obs.2, obs.3, obs.4, obs.5.text(), obs.6.text(), obs.7, wantn.text()
        )
    })
}

/// A raw model with the same normalization as `m` but (usually) other run lengths.
fn same_norm_other_runs(ctx: &mut Ctx, m: &Model, cap2: usize) -> Model {
    let stretch = |ctx: &mut Ctx, s: &[u8], cap: usize| -> Vec<u8> {
        let n = collapse(s);
        let mut out = Vec::new();
        for (i, &c) in n.iter().enumerate() {
            out.push(c);
            if i >= 2 && n[i - 1] == c && n[i - 2] == c {
                let extra = ctx.rng.range(0, 6);
                for _ in 0..extra {
                    if out.len() + (n.len() - i - 1) < cap {
                        out.push(c);
                    }
                }
            }
        }
        out
    };
    Model { log_bs: m.log_bs, bh1: stretch(ctx, &m.bh1, 64), bh2: stretch(ctx, &m.bh2, cap2) }
}

pub fn c07(ctx: &mut Ctx) -> R {
    // every run length 4..=64 at several positions, runs ending at the capacity limit
    'outer: for len in 4..=64usize {
        for pos in [0usize, 1, 2, 30, 60] {
            if pos + len > 64 || !ctx.alive() {
                if !ctx.alive() {
                    break 'outer;
                }
                continue;
            }
            ctx.input();
            let mut bh1: Vec<u8> = (0..pos).map(|i| (i % 3 + 1) as u8).collect();
            bh1.extend(std::iter::repeat(0u8).take(len));
            if bh1.len() < 64 {
                bh1.push(7);
            }
            let mut bh2 = bh1.clone();
            bh2.truncate(32);
            let m = Model { log_bs: (len % 31) as u8, bh1: bh1.clone(), bh2 };
            let o = same_norm_other_runs(ctx, &m, 32);
            c07_family::<ShortFamily>(ctx, &m, &o)?;
            let ml = Model { log_bs: (pos % 31) as u8, bh1: bh1.clone(), bh2: bh1 };
            let ol = same_norm_other_runs(ctx, &ml, 64);
            c07_family::<LongFamily>(ctx, &ml, &ol)?;
        }
    }
    while ctx.alive() {
        ctx.input();
        let m = gen::model_raw(&mut ctx.rng, 32);
        let o = if ctx.rng.chance(2, 3) { same_norm_other_runs(ctx, &m, 32) } else { gen::model_raw(&mut ctx.rng, 32) };
        c07_family::<ShortFamily>(ctx, &m, &o)?;
        let m = gen::model_raw(&mut ctx.rng, 64);
        let o = if ctx.rng.chance(2, 3) { same_norm_other_runs(ctx, &m, 64) } else { gen::model_raw(&mut ctx.rng, 64) };
        c07_family::<LongFamily>(ctx, &m, &o)?;
        // a tiny / edge-shaped hash over a used, run-rich one
        let (m, o) = (gen::model_second(&mut ctx.rng, 32), gen::model_rich(&mut ctx.rng, 32));
        c07_family::<ShortFamily>(ctx, &m, &o)?;
        let (m, o) = (gen::model_second(&mut ctx.rng, 64), gen::model_rich(&mut ctx.rng, 64));
        c07_family::<LongFamily>(ctx, &m, &o)?;
        reinit_round(ctx)?;
    }
    Ok(())
}

// ---------------------------------------------------------------- C15

fn c15_width<W: Width>(ctx: &mut Ctx, ms: &Model, ml: &Model, junk_s: &Model, junk_l: &Model) -> R {
    let input = || format!("short {} , long {} ({} / {})", ms.text(), ml.text(), W::Short::NAME, W::Long::NAME);
    let obs = ctx.nopanic("conversions-never-panic", || {
        let s = W::Short::of(ms);
        let l = W::Long::of(ml);
        let mut v: Vec<(&'static str, Model, bool)> = Vec::new();
        let a = W::to_long_form(&s);
        v.push(("to_long_form", a.model(), a.valid_both()));
        let b = W::from_short_form(&s);
        v.push(("from_short_form", b.model(), b.valid() && b.feq(&a)));
        let c = W::long_from(s);
        v.push(("From<short>", c.model(), c.valid() && c.feq(&a)));
        let mut d = W::Long::of(junk_l);
        W::into_mut_long_form(&s, &mut d);
        v.push(("into_mut_long_form over a used object", d.model(), d.valid_both() && d.feq(&a)));
        // widening then narrowing is the identity
        let mut back = W::Short::of(junk_s);
        let r = W::try_into_mut_short(&a, &mut back);
        v.push(("to_long_form then try_into_mut_short over a used object", back.model(), r.is_ok() && back.valid_both() && back.feq(&s)));
        let t = W::short_try_from(a);
        v.push(("to_long_form then TryFrom", t.map(|x| x.model()).unwrap_or(Model { log_bs: 255, bh1: vec![], bh2: vec![] }), t.map(|x| x.feq(&s)).unwrap_or(false)));
        // narrowing an arbitrary long hash
        let mut dst = W::Short::of(junk_s);
        let before = dst;
        let r = W::try_into_mut_short(&l, &mut dst);
        let t = W::short_try_from(l);
        let narrow_ok = if ml.bh2.len() > 32 {
            r == Err(FuzzyHashOperationError::BlockHashOverflow) && dst.feq(&before) && t == Err(FuzzyHashOperationError::BlockHashOverflow)
        } else {
            r.is_ok() && dst.valid_both() && dst.model() == *ml && t.map(|x| x.feq(&dst) && x.valid()).unwrap_or(false)
        };
        (v, narrow_ok, format!("try_into_mut_short = {:?}, destination now {} (was {}), TryFrom = {:?}", r, dst, before, t.map(|x| x.str_())))
    }, input)?;
    for (route, got, ok) in &obs.0 {
        ctx.check("widening-keeps-content", *got == *ms && *ok, || {
            format!("{}\nroute: {}\nreal code: {} (valid and structurally identical: {})\noracle: {}", input(), route, got.text(), ok, ms.text())
        })?;
    }
    ctx.check("narrowing-contract", obs.1, || {
        format!(
            "{}\nreal code: {}\noracle: {}",
            input(), obs.2,
            if ml.bh2.len() > 32 { "Err(BlockHashOverflow), destination untouched".to_string() } else { format!("Ok, destination holds {}", ml.text()) }
        )
    })
}

fn c15_family<F: Family>(ctx: &mut Ctx, mn: &Model, junk: &Model) -> R {
    let input = || format!("normalized hash {} ({})", mn.text(), F::Norm::NAME);
    let obs = ctx.nopanic("conversions-never-panic", || {
        let n = F::Norm::of(mn);
        let mut v: Vec<(&'static str, Model, bool)> = Vec::new();
        let a = F::to_raw_form(&n);
        v.push(("to_raw_form", a.model(), a.valid_both()));
        let b = F::from_normalized(&n);
        v.push(("from_normalized", b.model(), b.valid() && b.feq(&a)));
        let c = F::raw_from(n);
        v.push(("From<normalized>", c.model(), c.valid() && c.feq(&a)));
        let mut d = F::Raw::of(junk);
        F::into_mut_raw_form(&n, &mut d);
        v.push(("into_mut_raw_form over a used object", d.model(), d.valid_both() && d.feq(&a)));
        let e = F::normalize(&a);
        v.push(("to_raw_form then normalize", e.model(), e.valid() && e.feq(&n)));
        let f = F::D::from_norm(&n).to_raw();
        v.push(("dual from_normalized then to_raw_form", f.model(), f.valid() && f.feq(&a)));
        v
    }, input)?;
    for (route, got, ok) in &obs {
        ctx.check("reinterpreting-keeps-content", *got == *mn && *ok, || {
            format!("{}\nroute: {}\nreal code: {} (valid and structurally identical: {})\noracle: {}", input(), route, got.text(), ok, mn.text())
        })?;
    }
    Ok(())
}

pub fn c15(ctx: &mut Ctx) -> R {
    while ctx.alive() {
        ctx.input();
        let edge = ctx.rng.chance(1, 2);
        let rs = if edge { gen::model_second(&mut ctx.rng, 32) } else { gen::model_raw(&mut ctx.rng, 32) };
        let rl = if edge { gen::model_second(&mut ctx.rng, 64) } else { gen::model_raw(&mut ctx.rng, 64) };
        let js = if ctx.rng.chance(2, 3) { gen::model_rich(&mut ctx.rng, 32) } else { gen::model_raw(&mut ctx.rng, 32) };
        let jl = if ctx.rng.chance(2, 3) { gen::model_rich(&mut ctx.rng, 64) } else { gen::model_raw(&mut ctx.rng, 64) };
        reinit_round(ctx)?;
        c15_width::<RawWidth>(ctx, &rs, &rl, &js, &jl)?;
        c15_width::<NormWidth>(ctx, &rs.normalized(), &rl.normalized(), &js.normalized(), &jl.normalized())?;
        c15_family::<ShortFamily>(ctx, &rs.normalized(), &js)?;
        c15_family::<LongFamily>(ctx, &rl.normalized(), &jl)?;
        // chains commute: (short raw -> long raw -> long norm) == (short raw -> short norm -> long norm),
        // and the one cross conversion short normalized -> long raw
        let input = || format!("short raw hash {}", rs.text());
        let obs = ctx.nopanic("conversions-never-panic", || {
            let s = RawFuzzyHash::of(&rs);
            let p1 = s.to_long_form().normalize();
            let p2 = s.normalize().to_long_form();
            let p3 = LongFuzzyHash::from(FuzzyHash::from(s));
            let x = LongRawFuzzyHash::from(s.normalize());
            let y = s.normalize().to_long_form().to_raw_form();
            (p1.model(), p1.full_eq(&p2) && p1.full_eq(&p3) && p1.is_valid(), x.model(), x.full_eq(&y) && x.is_valid())
        }, input)?;
        let want = rs.normalized();
        ctx.check("conversion-chains-commute", obs.0 == want && obs.1 && obs.2 == want && obs.3, || {
            format!(
                "{}\nreal code: widen-then-normalize {} (identical to the other chains: {}); From<FuzzyHash> for LongRawFuzzyHash {} (identical to the two-step chain: {})\noracle: {}",
                input(), obs.0.text(), obs.1, obs.2.text(), obs.3, want.text()
            )
        })?;
    }
    Ok(())
}

// ---------------------------------------------------------------- C16

/// Three models that are often close in the order: equal, prefix, trailing 'A's (symbol 0).
fn near_models(ctx: &mut Ctx, cap2: usize, norm: bool) -> [Model; 3] {
    let base = if norm { gen::model_norm(&mut ctx.rng, cap2) } else { gen::model_raw(&mut ctx.rng, cap2) };
    let vary = |ctx: &mut Ctx, m: &Model| -> Model {
        let mut x = m.clone();
        let fix = |v: Vec<u8>, cap: usize| {
            let mut v = if norm { collapse(&v) } else { v };
            v.truncate(cap);
            v
        };
        match ctx.rng.below(9) {
            0 => {}
            1 => {
                let k = ctx.rng.range(1, 3);
                for _ in 0..k {
                    x.bh1.push(0);
                }
            }
            2 => {
                let k = ctx.rng.range(1, 3);
                for _ in 0..k {
                    x.bh2.push(0);
                }
            }
            3 => {
                x.bh1.pop();
            }
            4 => {
                x.bh2.pop();
            }
            5 => x.log_bs = (x.log_bs + 1) % 31,
            6 => {
                if let Some(l) = x.bh1.last_mut() {
                    *l = (*l + 1) % 64;
                }
            }
            7 => {
                if !x.bh2.is_empty() {
                    let i = ctx.rng.range(0, x.bh2.len() - 1);
                    x.bh2[i] = ctx.rng.below(64) as u8;
                }
            }
            _ => std::mem::swap(&mut x.bh1, &mut x.bh2),
        }
        x.bh1 = fix(x.bh1, 64);
        x.bh2 = fix(x.bh2, cap2);
        x
    };
    let b = vary(ctx, &base);
    let c = vary(ctx, &b);
    [base, b, c]
}

fn c16_plain<T: Plain>(ctx: &mut Ctx) -> R {
    let ms = near_models(ctx, T::CAP2, T::NORM);
    let input = || format!("type {}: a={} b={} c={}", T::NAME, ms[0].text(), ms[1].text(), ms[2].text());
    let hs: Vec<T> = ctx.nopanic("constructor-in-contract", || ms.iter().map(|m| T::of(m)).collect(), input)?;
    for i in 0..3 {
        for j in 0..3 {
            let (a, b) = (&hs[i], &hs[j]);
            let obs = ctx.nopanic("eq-ord-hash-never-panic", || (a == b, a.cmp(b), a.partial_cmp(b), hash_of(a) == hash_of(b), a.str_() == b.str_()), input)?;
            let want_eq = ms[i] == ms[j];
            let want_ord = ms[i].order(&ms[j]);
            ctx.check("eq-iff-text-eq", obs.0 == want_eq && obs.4 == want_eq && (!obs.0 || obs.3), || {
                format!(
                    "{}\npair ({},{})\nreal code: == {}, texts equal {}, Hash output equal {}\noracle: equal {} (and equal objects hash equally)",
                    input(), i, j, obs.0, obs.4, obs.3, want_eq
                )
            })?;
            ctx.check("documented-order", obs.1 == want_ord && obs.2 == Some(want_ord), || {
                format!(
                    "{}\npair ({},{})\nreal code: cmp {:?}, partial_cmp {:?}\noracle (block size, then block hash 1 lexicographic with prefix first, then block hash 2): {:?}",
                    input(), i, j, obs.1, obs.2, want_ord
                )
            })?;
        }
    }
    Ok(())
}

fn c16_dual<F: Family>(ctx: &mut Ctx) -> R {
    let cap2 = F::Raw::CAP2;
    let base = near_models(ctx, cap2, false);
    // make some share a normalized part
    let ms = [base[0].clone(), same_norm_other_runs(ctx, &base[0], cap2), if ctx.rng.chance(1, 2) { base[1].clone() } else { same_norm_other_runs(ctx, &base[1], cap2) }];
    let input = || format!("type {}: a={} b={} c={}", <F::D as Dual>::NAME, ms[0].text(), ms[1].text(), ms[2].text());
    let ds: Vec<F::D> = ctx.nopanic("dual-construction-never-panics", || ms.iter().map(|m| F::D::from_raw(&F::Raw::of(m))).collect(), input)?;
    let mut ord = [[Ordering::Equal; 3]; 3];
    for i in 0..3 {
        for j in 0..3 {
            let o = ctx.nopanic("eq-ord-hash-never-panic", || ds[i].cmp(&ds[j]), input)?;
            ord[i][j] = o;
            let (ni, nj) = (ms[i].normalized(), ms[j].normalized());
            let eq = ds[i] == ds[j];
            let ok = if ni != nj {
                o == ni.order(&nj) && !eq
            } else {
                (o == Ordering::Equal) == (ms[i] == ms[j]) && eq == (ms[i] == ms[j]) && ds[i].partial_cmp(&ds[j]) == Some(o)
            };
            ctx.check("dual-order-follows-normalized-part", ok, || {
                format!(
                    "{}\npair ({},{})\nreal code: cmp {:?}, == {}\noracle: normalized parts {} vs {} order {:?}; with equal normalized parts: Equal exactly when the raw hashes are equal ({})",
                    input(), i, j, o, eq, ni.text(), nj.text(), ni.order(&nj), ms[i] == ms[j]
                )
            })?;
        }
    }
    for i in 0..3 {
        for j in 0..3 {
            ctx.check("order-antisymmetric", ord[i][j] == ord[j][i].reverse(), || {
                format!("{}\npair ({},{})\nreal code: cmp {:?} but reversed operands {:?}\noracle: a total order", input(), i, j, ord[i][j], ord[j][i])
            })?;
            for k in 0..3 {
                let bad = ord[i][j] != Ordering::Greater && ord[j][k] != Ordering::Greater && ord[i][k] == Ordering::Greater;
                ctx.check("order-transitive", !bad, || {
                    format!("{}\ntriple ({},{},{})\nreal code: {:?}, {:?} but {:?}\noracle: a total order", input(), i, j, k, ord[i][j], ord[j][k], ord[i][k])
                })?;
            }
        }
    }
    Ok(())
}

/// Models close to `m` in the order (first entry: `m` itself), valid for a type with the
/// given capacity / normalization.
fn variants(ctx: &mut Ctx, m: &Model, cap2: usize, norm: bool) -> Vec<Model> {
    let fix = |mut x: Model| {
        if norm {
            x = x.normalized();
        }
        x.bh1.truncate(64);
        x.bh2.truncate(cap2);
        x
    };
    let mut out = vec![m.clone()];
    let mut push = |x: Model| out.push(fix(x));
    let mut x = m.clone();
    x.bh1.push(0);
    push(x);
    let mut x = m.clone();
    x.bh2.push(0);
    push(x);
    let mut x = m.clone();
    x.bh1.pop();
    push(x);
    let mut x = m.clone();
    x.bh2.pop();
    push(x);
    let mut x = m.clone();
    x.log_bs = if x.log_bs == 30 { 29 } else { x.log_bs + 1 };
    push(x);
    let mut x = m.clone();
    if let Some(l) = x.bh2.last_mut() {
        *l = (*l + 1 + ctx.rng.below(62) as u8) % 64;
    }
    push(x);
    let mut x = m.clone();
    if !x.bh1.is_empty() {
        let i = ctx.rng.range(0, x.bh1.len() - 1);
        x.bh1[i] = ctx.rng.below(64) as u8;
    }
    push(x);
    out
}

/// Mixed pairs (object produced into a used destination, freshly built object): the same
/// equality / order / hash laws as for fresh objects.
fn c16_mixed_plain<T: Plain>(ctx: &mut Ctx, first: &str, second: &str, made: Vec<(&'static str, T, Model)>) -> R {
    for (route, r, m) in &made {
        let others = variants(ctx, m, T::CAP2, T::NORM);
        for o in &others {
            let input = || {
                format!(
                    "type {}\nfirst content (what the destination held): {}\nsecond content (what was written over it): {}\nroute: {}\nreused object prints as {} ; compared with the freshly built {}",
                    T::NAME, first, second, route, m.text(), o.text()
                )
            };
            let obs = ctx.nopanic("eq-ord-hash-never-panic", || {
                let f = T::of(o);
                (*r == f, f == *r, r.cmp(&f), f.cmp(r), r.partial_cmp(&f), hash_of(r) == hash_of(&f), r.str_(), r.valid())
            }, input)?;
            let want_eq = m == o;
            let want_ord = m.order(o);
            let ok = obs.0 == want_eq && obs.1 == want_eq && obs.2 == want_ord && obs.3 == want_ord.reverse() && obs.4 == Some(want_ord) && (!want_eq || obs.5) && obs.6 == m.text();
            ctx.check("reused-vs-fresh-eq-ord-hash", ok, || {
                format!(
                    "{}\nreal code: reused == fresh {}, fresh == reused {}, reused.cmp(fresh) {:?}, fresh.cmp(reused) {:?}, partial_cmp {:?}, equal Hash output {}, reused text {:?}, reused.is_valid() {}\noracle: equal {} (texts), order {:?} / {:?} (block size, block hash 1 with prefix first, block hash 2), equal objects hash equally",
                    input(), obs.0, obs.1, obs.2, obs.3, obs.4, obs.5, obs.6, obs.7, want_eq, want_ord, want_ord.reverse()
                )
            })?;
        }
    }
    Ok(())
}

fn c16_mixed_dual<D: Dual>(ctx: &mut Ctx, first: &str, second: &str, made: Vec<(&'static str, D, Model)>) -> R {
    let cap2 = D::Raw::CAP2;
    for (route, r, m) in &made {
        let mut others = variants(ctx, m, cap2, false);
        others.push(same_norm_other_runs(ctx, m, cap2));
        for o in &others {
            let input = || {
                format!(
                    "type {}\nfirst content (what the dual held): {}\nsecond content (what was written over it): {}\nroute: {}\nreused dual has raw form {} ; compared with the dual freshly built from {}",
                    D::NAME, first, second, route, m.text(), o.text()
                )
            };
            let obs = ctx.nopanic("eq-ord-hash-never-panic", || {
                let f = D::from_raw(&D::Raw::of(o));
                let twin = D::from_raw(&D::Raw::of(m));
                (*r == f, f == *r, r.cmp(&f), f.cmp(r), r.partial_cmp(&f), hash_of(r) == hash_of(&f), twin.cmp(&f), r.valid(), format!("{:?}", r))
            }, input)?;
            let want_eq = m == o;
            let (nm, no) = (m.normalized(), o.normalized());
            let ord_ok = if nm != no { obs.2 == nm.order(&no) } else { (obs.2 == Ordering::Equal) == want_eq };
            let ok = obs.0 == want_eq && obs.1 == want_eq && ord_ok && obs.3 == obs.2.reverse() && obs.4 == Some(obs.2) && (!want_eq || obs.5) && obs.2 == obs.6;
            ctx.check("reused-vs-fresh-eq-ord-hash", ok, || {
                format!(
                    "{}\nreal code: reused == fresh {}, fresh == reused {}, reused.cmp(fresh) {:?}, fresh.cmp(reused) {:?}, partial_cmp {:?}, equal Hash output {}, a fresh dual of the same raw hash orders {:?}, reused.is_valid() {}\nreused object: {}\noracle: equal {} (raw hashes), Equal exactly when equal, antisymmetric, normalized parts order {:?}, and the same answer as a fresh dual of the same raw hash",
                    input(), obs.0, obs.1, obs.2, obs.3, obs.4, obs.5, obs.6, obs.7, obs.8, want_eq, nm.order(&no)
                )
            })?;
        }
    }
    Ok(())
}

/// Objects produced INTO previously used destinations by every safe mutating route, then the
/// C16 laws on mixed (reused, fresh) pairs.
fn c16_reused_family<F: Family>(ctx: &mut Ctx, first: &Model, second: &Model) -> R {
    let input = || format!("first content {} , second content {} ({})", first.text(), second.text(), F::Raw::NAME);
    let (sn, fnm) = (second.normalized(), first.normalized());
    type Made<T> = Vec<(&'static str, T, Model)>;
    let made: (Made<F::Raw>, Made<F::Norm>, Made<F::D>) = ctx.nopanic("reinitialisation-never-panics", || {
        let raw1 = F::Raw::of(first);
        let raw2 = F::Raw::of(second);
        let norm1 = F::normalize(&raw1);
        let norm2 = F::normalize(&raw2);
        let mut raws: Made<F::Raw> = Vec::new();
        let mut norms: Made<F::Norm> = Vec::new();
        let mut duals: Made<F::D> = Vec::new();
        // dual over a used dual
        let mut d = F::D::from_raw(&raw1);
        d.init_from_raw(&raw2);
        duals.push(("dual.init_from_raw_form over a used dual", d, second.clone()));
        let mut d2 = F::D::from_raw(&raw2);
        d2.init_from_raw(&raw1);
        d2.init_from_raw(&raw2);
        duals.push(("dual.init_from_raw_form: second, first, second again", d2, second.clone()));
        let mut d3 = d;
        d3.norm_in_place();
        duals.push(("dual.init_from_raw_form over a used dual, then normalize_in_place", d3, sn.clone()));
        let mut d4 = F::D::from_raw(&raw1);
        d4.norm_in_place();
        duals.push(("dual.normalize_in_place on a run-rich dual", d4, fnm.clone()));
        // raw destinations
        let mut r = raw1;
        F::D::from_raw(&raw2).into_mut_raw(&mut r);
        raws.push(("dual.into_mut_raw_form into a used raw hash", r, second.clone()));
        raws.push(("to_raw_form of a re-initialised dual", d.to_raw(), second.clone()));
        let mut r = raw1;
        F::into_mut_raw_form(&norm2, &mut r);
        raws.push(("into_mut_raw_form (normalized -> raw) into a used raw hash", r, sn.clone()));
        let mut r = raw1;
        r.init_arrays(raw2.lb(), raw2.arr1(), raw2.arr2(), raw2.l1() as u8, raw2.l2() as u8);
        raws.push(("init_from_internals_raw over a used raw hash", r, second.clone()));
        let mut r2 = r;
        r2.norm_in_place();
        raws.push(("init_from_internals_raw over a used raw hash, then normalize_in_place", r2, sn.clone()));
        let mut r = raw1;
        r.norm_in_place();
        raws.push(("normalize_in_place on a run-rich raw hash", r, fnm.clone()));
        raws.push(("clone_normalized of a run-rich raw hash", raw1.clone_norm(), fnm.clone()));
        let mut r = raw1;
        F::D::from_norm(&norm2).into_mut_raw(&mut r);
        raws.push(("dual(from_normalized).into_mut_raw_form into a used raw hash", r, sn.clone()));
        // normalized destinations
        let mut n = norm1;
        n.init_arrays(norm2.lb(), norm2.arr1(), norm2.arr2(), norm2.l1() as u8, norm2.l2() as u8);
        norms.push(("init_from_internals_raw over a used normalized hash", n, sn.clone()));
        norms.push(("as_normalized of a re-initialised dual", *d.as_norm(), sn.clone()));
        norms.push(("to_normalized of a re-initialised dual", d.to_norm(), sn.clone()));
        norms.push(("normalize() of a run-rich raw hash", norm1, fnm.clone()));
        let mut n = norm1;
        n.norm_in_place();
        norms.push(("normalize() then normalize_in_place", n, fnm.clone()));
        let mut r = raw1;
        F::into_mut_raw_form(&norm2, &mut r);
        norms.push(("normalize() of a raw hash written by into_mut_raw_form", F::normalize(&r), sn.clone()));
        (raws, norms, duals)
    }, input)?;
    let (ft, st) = (first.text(), second.text());
    c16_mixed_plain::<F::Raw>(ctx, &ft, &st, made.0)?;
    c16_mixed_plain::<F::Norm>(ctx, &ft, &st, made.1)?;
    c16_mixed_dual::<F::D>(ctx, &ft, &st, made.2)
}

fn c16_reused_width<W: Width>(ctx: &mut Ctx, first_s: &Model, first_l: &Model, second: &Model) -> R {
    let input = || format!("first contents {} (short) / {} (long), second content {} ({} / {})", first_s.text(), first_l.text(), second.text(), W::Short::NAME, W::Long::NAME);
    type Made<T> = Vec<(&'static str, T, Model)>;
    let made: (Made<W::Short>, Made<W::Long>) = ctx.nopanic("reinitialisation-never-panics", || {
        let s2 = W::Short::of(second);
        let mut shorts: Made<W::Short> = Vec::new();
        let mut longs: Made<W::Long> = Vec::new();
        let mut l = W::Long::of(first_l);
        W::into_mut_long_form(&s2, &mut l);
        longs.push(("into_mut_long_form into a used long hash", l, second.clone()));
        let mut l2 = l;
        l2.norm_in_place();
        longs.push(("into_mut_long_form into a used long hash, then normalize_in_place", l2, second.normalized()));
        longs.push(("into_mut_long_form into a used long hash, then clone_normalized", l.clone_norm(), second.normalized()));
        let mut s = W::Short::of(first_s);
        let _ = W::try_into_mut_short(&W::to_long_form(&s2), &mut s);
        shorts.push(("try_into_mut_short into a used short hash", s, second.clone()));
        let mut s = W::Short::of(first_s);
        let _ = W::try_into_mut_short(&l, &mut s);
        shorts.push(("into_mut_long_form into a used long hash, then try_into_mut_short into a used short hash", s, second.clone()));
        if first_l.bh2.len() > 32 {
            // a refused narrowing leaves the destination as it was
            let mut s = s2;
            let _ = W::try_into_mut_short(&W::Long::of(first_l), &mut s);
            shorts.push(("destination of a refused try_into_mut_short", s, second.clone()));
        }
        (shorts, longs)
    }, input)?;
    let ft = format!("{} (short destination) / {} (long destination)", first_s.text(), first_l.text());
    c16_mixed_plain::<W::Short>(ctx, &ft, &second.text(), made.0)?;
    c16_mixed_plain::<W::Long>(ctx, &ft, &second.text(), made.1)
}

fn c16_reused_round(ctx: &mut Ctx) -> R {
    let f_s = gen::model_rich(&mut ctx.rng, 32);
    let f_l = gen::model_rich(&mut ctx.rng, 64);
    let s_s = gen::model_second(&mut ctx.rng, 32);
    let s_l = gen::model_second(&mut ctx.rng, 64);
    c16_reused_family::<ShortFamily>(ctx, &f_s, &s_s)?;
    c16_reused_family::<LongFamily>(ctx, &f_l, &s_l)?;
    c16_reused_width::<RawWidth>(ctx, &f_s, &f_l, &s_s)?;
    c16_reused_width::<NormWidth>(ctx, &f_s.normalized(), &f_l.normalized(), &s_s.normalized())?;
    // the second content need not be small
    let s_s = gen::model_raw(&mut ctx.rng, 32);
    c16_reused_width::<RawWidth>(ctx, &f_s, &f_l, &s_s)
}

pub fn c16(ctx: &mut Ctx) -> R {
    while ctx.alive() {
        ctx.input();
        c16_reused_round(ctx)?;
        c16_plain::<FuzzyHash>(ctx)?;
        c16_plain::<RawFuzzyHash>(ctx)?;
        c16_plain::<LongFuzzyHash>(ctx)?;
        c16_plain::<LongRawFuzzyHash>(ctx)?;
        c16_dual::<ShortFamily>(ctx)?;
        c16_dual::<LongFamily>(ctx)?;
    }
    Ok(())
}

// ---------------------------------------------------------------- C11

/// Arguments for the constructors, in and out of contract.
fn wild_args(ctx: &mut Ctx, cap2: usize) -> (u32, u8, Vec<u8>, Vec<u8>) {
    let log = if ctx.rng.chance(1, 6) { ctx.rng.range(31, 255) as u8 } else { gen::log_bs(&mut ctx.rng) };
    let bs: u32 = if ctx.rng.chance(1, 6) { *ctx.rng.pick(&[0u32, 1, 2, 4, 5, 9, 3 << 30, u32::MAX, 1 << 31, 7]) } else { 3u32 << gen::log_bs(&mut ctx.rng) };
    let part = |ctx: &mut Ctx, cap: usize| -> Vec<u8> {
        let len = if ctx.rng.chance(1, 6) { ctx.rng.range(cap + 1, cap + 70) } else { gen::bh_len(&mut ctx.rng, cap) };
        let mut v = gen::bh_raw(&mut ctx.rng, len);
        if ctx.rng.chance(1, 6) && !v.is_empty() {
            let i = ctx.rng.range(0, v.len() - 1);
            v[i] = *ctx.rng.pick(&[64u8, 65, 128, 255]);
        }
        v
    };
    let b1 = part(ctx, 64);
    let b2 = part(ctx, cap2);
    (bs, log, b1, b2)
}

fn in_contract(cap2: usize, norm: bool, b1: &[u8], b2: &[u8]) -> bool {
    b1.len() <= 64 && b2.len() <= cap2 && b1.iter().chain(b2.iter()).all(|&x| x < 64) && (!norm || (collapse(b1) == b1 && collapse(b2) == b2))
}

fn c11_plain<T: Plain>(ctx: &mut Ctx) -> R {
    let (bs, log, b1, b2) = wild_args(ctx, T::CAP2);
    let bs_ok = (0..31).any(|n| bs == 3u32 << n);
    let content_ok = in_contract(T::CAP2, T::NORM, &b1, &b2);
    let args = || format!("type {}: block_size={} / log_block_size={}, block_hash_1={:?}, block_hash_2={:?}", T::NAME, bs, log, b1, b2);
    // new_from_internals / new_from_internals_near_raw
    for near_raw in [false, true] {
        let legal = content_ok && if near_raw { log < 31 } else { bs_ok };
        let r = guard(|| if near_raw { T::build_near_raw(log, &b1, &b2) } else { T::build(bs, &b1, &b2) });
        let name = if near_raw { "new_from_internals_near_raw" } else { "new_from_internals" };
        ctx.checks.insert("constructor-contract");
        match r {
            Ok(h) => {
                let valid = guard(|| h.valid_both()).unwrap_or(false);
                let dbg = guard(|| format!("{:?}", h)).unwrap_or_else(|e| format!("<Debug PANICKED: {}>", e));
                let holds = guard(|| h.b1() == &b1[..] && h.b2() == &b2[..]).unwrap_or(false);
                if !valid || (legal && !holds) || dbg.contains("PANICKED") {
                    return Err(Fail {
                        check: "constructor-contract",
                        details: format!(
                            "{}\nreal code: {} returned {} with (is_valid() and valid by the stated rules)={}\noracle: {}",
                            args(), name, dbg, valid,
                            if legal { "a valid object holding exactly the arguments" } else { "arguments are out of contract: a panic, never an invalid object" }
                        ),
                    });
                }
            }
            Err(msg) => {
                if legal {
                    return Err(Fail {
                        check: "constructor-contract",
                        details: format!("{}\nreal code: {} PANICKED: {}\noracle: arguments are within the contract, a valid object is returned", args(), name, msg),
                    });
                }
            }
        }
    }
    // array forms: the unused tail must be zero
    let mut a1 = vec![0u8; 64];
    let mut a2 = vec![0u8; T::CAP2];
    let l1 = b1.len().min(64);
    let l2 = b2.len().min(T::CAP2);
    a1[..l1].copy_from_slice(&b1[..l1]);
    a2[..l2].copy_from_slice(&b2[..l2]);
    let mut tail_dirty = false;
    if ctx.rng.chance(1, 4) && l1 < 64 {
        a1[ctx.rng.range(l1, 63)] = ctx.rng.range(1, 255) as u8;
        tail_dirty = true;
    }
    if ctx.rng.chance(1, 4) && l2 < T::CAP2 {
        a2[ctx.rng.range(l2, T::CAP2 - 1)] = ctx.rng.range(1, 255) as u8;
        tail_dirty = true;
    }
    let (n1, n2) = if ctx.rng.chance(1, 6) { (ctx.rng.range(0, 255) as u8, ctx.rng.range(0, 255) as u8) } else { (l1 as u8, l2 as u8) };
    let legal = log < 31 && !tail_dirty && n1 as usize == l1 && n2 as usize == l2 && in_contract(T::CAP2, T::NORM, &a1[..l1], &a2[..l2]);
    let args2 = || format!("type {}: log_block_size={}, block_hash_1 array={:?}, block_hash_2 array={:?}, lengths {} and {}", T::NAME, log, a1, a2, n1, n2);
    for init in [false, true] {
        let name = if init { "init_from_internals_raw (on a used object)" } else { "new_from_internals_raw" };
        let r = guard(|| {
            if init {
                let mut h = T::parse(b"3221225472:AAABBBCCCDDDEEEFFFGGGHHHIIIJJJKKKLLLMMMNNNOOOPPPQQQRRRSSSTTTUUUV:zzzyyyxxxwwwvvvuuutttsssrrrqqqpp").unwrap();
                h.init_arrays(log, &a1, &a2, n1, n2);
                h
            } else {
                T::build_arrays(log, &a1, &a2, n1, n2)
            }
        });
        ctx.checks.insert("array-constructor-contract");
        match r {
            Ok(h) => {
                let valid = guard(|| h.valid_both()).unwrap_or(false);
                let dbg = guard(|| format!("{:?}", h)).unwrap_or_else(|e| format!("<Debug PANICKED: {}>", e));
                if !valid || dbg.contains("PANICKED") {
                    return Err(Fail {
                        check: "array-constructor-contract",
                        details: format!(
                            "{}\nreal code: {} returned {} with is_valid()={}\noracle: {}",
                            args2(), name, dbg, valid,
                            if legal { "a valid object" } else { "arguments are out of contract: a panic, never an invalid object" }
                        ),
                    });
                }
            }
            Err(msg) => {
                if legal {
                    return Err(Fail {
                        check: "array-constructor-contract",
                        details: format!("{}\nreal code: {} PANICKED: {}\noracle: arguments are within the contract", args2(), name, msg),
                    });
                }
            }
        }
    }
    Ok(())
}

fn c11_dual<D: Dual>(ctx: &mut Ctx) -> R {
    let cap2 = D::Raw::CAP2;
    let (bs, log, b1, b2) = wild_args(ctx, cap2);
    let bs_ok = (0..31).any(|n| bs == 3u32 << n);
    let content_ok = in_contract(cap2, false, &b1, &b2);
    let args = || format!("type {}: block_size={} / log_block_size={}, block_hash_1={:?}, block_hash_2={:?}", D::NAME, bs, log, b1, b2);
    for near_raw in [false, true] {
        let legal = content_ok && if near_raw { log < 31 } else { bs_ok };
        let r = guard(|| if near_raw { D::build_near_raw(log, &b1, &b2) } else { D::build(bs, &b1, &b2) });
        let name = if near_raw { "new_from_internals_near_raw" } else { "new_from_internals" };
        ctx.checks.insert("constructor-contract");
        match r {
            Ok(h) => {
                let valid = guard(|| h.valid()).unwrap_or(false);
                let dbg = guard(|| format!("{:?}", h)).unwrap_or_else(|e| format!("<Debug PANICKED: {}>", e));
                let holds = guard(|| h.to_raw().b1() == &b1[..] && h.to_raw().b2() == &b2[..]).unwrap_or(false);
                if !valid || (legal && !holds) || dbg.contains("PANICKED") {
                    return Err(Fail {
                        check: "constructor-contract",
                        details: format!(
                            "{}\nreal code: {} returned {} with is_valid()={}\noracle: {}",
                            args(), name, dbg, valid,
                            if legal { "a valid object whose raw form is exactly the arguments" } else { "arguments are out of contract: a panic, never an invalid object" }
                        ),
                    });
                }
            }
            Err(msg) => {
                if legal {
                    return Err(Fail {
                        check: "constructor-contract",
                        details: format!("{}\nreal code: {} PANICKED: {}\noracle: arguments are within the contract", args(), name, msg),
                    });
                }
            }
        }
    }
    Ok(())
}

pub fn c11(ctx: &mut Ctx) -> R {
    let mut round = 0u32;
    // one comparison target that lives through a history of re-initialisations: it (and its
    // position arrays) must be valid after every safe operation, Debug formatting included
    let mut htarget = ssdeep::FuzzyHashCompareTarget::new();
    let mut history: Vec<String> = Vec::new();
    while ctx.alive() {
        round += 1;
        let which = if ctx.rng.chance(1, 3) { ctx.rng.below(6) as u32 } else { round };
        let hm = crate::p_compare::history_model(ctx, which);
        crate::p_compare::target_history_step(ctx, &mut htarget, &hm, &mut history)?;
        ctx.input();
        c11_plain::<FuzzyHash>(ctx)?;
        c11_plain::<RawFuzzyHash>(ctx)?;
        c11_plain::<LongFuzzyHash>(ctx)?;
        c11_plain::<LongRawFuzzyHash>(ctx)?;
        c11_dual::<DualFuzzyHash>(ctx)?;
        c11_dual::<LongDualFuzzyHash>(ctx)?;
        // destinations that still hold the content of earlier operations
        reinit_round(ctx)?;
        // the other routes to objects: every check there includes validity of the results
        match round % 4 {
            0 => {
                let mut t = gen::hash_text(&mut ctx.rng);
                if ctx.rng.chance(1, 2) {
                    gen::mutate_text(&mut ctx.rng, &mut t);
                }
                c04_all(ctx, &t)?;
            }
            1 => {
                let m = gen::model_second(&mut ctx.rng, 32);
                let o = gen::model_rich(&mut ctx.rng, 32);
                c06_family::<ShortFamily>(ctx, &m)?;
                c07_family::<ShortFamily>(ctx, &m, &o)?;
            }
            2 => {
                let m = gen::model_second(&mut ctx.rng, 64);
                let o = gen::model_rich(&mut ctx.rng, 64);
                c06_family::<LongFamily>(ctx, &m)?;
                c07_family::<LongFamily>(ctx, &m, &o)?;
            }
            _ => {
                let rs = gen::model_second(&mut ctx.rng, 32);
                let rl = gen::model_second(&mut ctx.rng, 64);
                let js = gen::model_rich(&mut ctx.rng, 32);
                let jl = gen::model_rich(&mut ctx.rng, 64);
                c15_width::<RawWidth>(ctx, &rs, &rl, &js, &jl)?;
                c15_width::<NormWidth>(ctx, &rs.normalized(), &rl.normalized(), &js.normalized(), &jl.normalized())?;
            }
        }
    }
    Ok(())
}
