//! C14 (only in a build of the library with its `unchecked` feature): every `*_unchecked`
//! entry point against its checked twin, on arguments inside the documented `# Safety`
//! contract.  A panic inside an unchecked call while the checked twin returns normally is a
//! disagreement; where an oracle exists both are also compared with it.

#![allow(unsafe_code)]

use crate::gen;
use crate::oracle::{self, collapse, Model};
use crate::types::*;
use crate::util::{guard, Ctx, Fail, R};
use ssdeep::internal_comparison::{
    BlockHashPositionArray, BlockHashPositionArrayData, BlockHashPositionArrayImpl, BlockHashPositionArrayImplUnchecked,
};
use ssdeep::{
    block_size, BlockSizeRelation, DualFuzzyHash, FuzzyHash, FuzzyHashCompareTarget, LongDualFuzzyHash, LongFuzzyHash,
    LongRawFuzzyHash, RawFuzzyHash,
};
use std::fmt::Debug;

/// checked vs unchecked (vs oracle, when there is one)
fn twin<T: PartialEq + Debug>(
    ctx: &mut Ctx,
    name: &'static str,
    input: &dyn Fn() -> String,
    checked: impl FnOnce() -> T,
    unchecked: impl FnOnce() -> T,
    want: Option<T>,
) -> R {
    ctx.checks.insert(name);
    let c = guard(checked);
    let u = guard(unchecked);
    let ok = match (&c, &u) {
        (Ok(a), Ok(b)) => a == b && want.as_ref().map_or(true, |w| w == a),
        _ => false,
    };
    if ok {
        return Ok(());
    }
    let show = |r: &Result<T, String>| match r {
        Ok(v) => format!("{:?}", v),
        Err(m) => format!("PANICKED: {}", m),
    };
    Err(Fail {
        check: name,
        details: format!(
            "{}\nreal code, checked twin: {}\nreal code, unchecked form ({}): {}\noracle: {} (the arguments satisfy the documented Safety contract, so both forms agree and neither panics; replay is built in release mode with overflow checks on, debug assertions off)",
            input(), show(&c), name, show(&u),
            want.map_or("the value of the checked twin".to_string(), |w| format!("{:?}", w))
        ),
    })
}

/// the same for constructors: structurally identical, valid objects
fn twin_obj<T: Plain>(ctx: &mut Ctx, name: &'static str, input: &dyn Fn() -> String, checked: impl FnOnce() -> T, unchecked: impl FnOnce() -> T, want: &Model) -> R {
    ctx.checks.insert(name);
    let c = guard(checked);
    let u = guard(unchecked);
    let ok = match (&c, &u) {
        (Ok(a), Ok(b)) => a.feq(b) && a == b && b.valid_both() && b.model() == *want,
        _ => false,
    };
    if ok {
        return Ok(());
    }
    let show = |r: &Result<T, String>| match r {
        Ok(v) => format!("{:?} is_valid={}", v, v.valid()),
        Err(m) => format!("PANICKED: {}", m),
    };
    Err(Fail {
        check: name,
        details: format!(
            "{}\nreal code, checked twin: {}\nreal code, unchecked form ({}): {}\noracle: both give the valid object {} (the arguments satisfy the documented Safety contract)",
            input(), show(&c), name, show(&u), want.text()
        ),
    })
}

// ---------------------------------------------------------------- position arrays

fn pa_twins<P: BlockHashPositionArrayImpl + BlockHashPositionArrayImplUnchecked>(ctx: &mut Ctx, pa: &P, held: &[u8], other: &[u8], what: &str) -> R {
    let input = || format!("{} holding symbols {:?}, other string {:?}", what, held, other);
    twin(ctx, "is_equiv_unchecked", &input, || pa.is_equiv(other), || unsafe { pa.is_equiv_unchecked(other) }, Some(held == other))?;
    twin(ctx, "has_common_substring_unchecked", &input, || pa.has_common_substring(other), || unsafe { pa.has_common_substring_unchecked(other) }, Some(oracle::has7(held, other)))?;
    twin(ctx, "edit_distance_unchecked", &input, || pa.edit_distance(other), || unsafe { pa.edit_distance_unchecked(other) }, Some(oracle::edit_distance(held, other)))?;
    if collapse(held) == held {
        twin(ctx, "score_strings_raw_unchecked", &input, || pa.score_strings_raw(other), || unsafe { pa.score_strings_raw_unchecked(other) }, Some(oracle::score_strings(held, other, 31)))?;
        for n in [0u8, 1, 2, 3, 4, 5, 17, 30, 31] {
            let input = || format!("{} holding symbols {:?}, other string {:?}, log block size {}", what, held, other, n);
            twin(ctx, "score_strings_unchecked", &input, || pa.score_strings(other, n), || unsafe { pa.score_strings_unchecked(other, n) }, Some(oracle::score_strings(held, other, n)))?;
        }
    }
    Ok(())
}

// ---------------------------------------------------------------- comparison targets

macro_rules! target_twins {
    ($ctx:expr, $t:expr, $ha:expr, $hb:expr, $a:expr, $b:expr, $tname:expr) => {{
        let (t, ha, hb, a, b): (&FuzzyHashCompareTarget, _, _, &Model, &Model) = ($t, $ha, $hb, $a, $b);
        let input = || format!("{}: target (re)initialised from a = {} , other b = {}", $tname, a.text(), b.text());
        let want = oracle::compare(a, b);
        let cand = oracle::is_candidate(a, b);
        let unequal = a != b;
        match block_size::compare_sizes(a.log_bs, b.log_bs) {
            BlockSizeRelation::NearEq => {
                twin($ctx, "compare_near_eq_unchecked", &input, || t.compare_near_eq(hb), || unsafe { t.compare_near_eq_unchecked(hb) }, Some(want))?;
                if unequal {
                    twin($ctx, "compare_unequal_near_eq_unchecked", &input, || t.compare_unequal_near_eq(hb), || unsafe { t.compare_unequal_near_eq_unchecked(hb) }, Some(want))?;
                }
                twin($ctx, "is_comparison_candidate_near_eq_unchecked", &input, || t.is_comparison_candidate_near_eq(hb), || unsafe { t.is_comparison_candidate_near_eq_unchecked(hb) }, Some(cand))?;
            }
            BlockSizeRelation::NearLt => {
                twin($ctx, "compare_unequal_near_lt_unchecked", &input, || t.compare_unequal_near_lt(hb), || unsafe { t.compare_unequal_near_lt_unchecked(hb) }, Some(want))?;
                twin($ctx, "is_comparison_candidate_near_lt_unchecked", &input, || t.is_comparison_candidate_near_lt(hb), || unsafe { t.is_comparison_candidate_near_lt_unchecked(hb) }, Some(cand))?;
            }
            BlockSizeRelation::NearGt => {
                twin($ctx, "compare_unequal_near_gt_unchecked", &input, || t.compare_unequal_near_gt(hb), || unsafe { t.compare_unequal_near_gt_unchecked(hb) }, Some(want))?;
                twin($ctx, "is_comparison_candidate_near_gt_unchecked", &input, || t.is_comparison_candidate_near_gt(hb), || unsafe { t.is_comparison_candidate_near_gt_unchecked(hb) }, Some(cand))?;
            }
            BlockSizeRelation::Far => {}
        }
        if unequal {
            twin($ctx, "target.compare_unequal_unchecked", &input, || t.compare_unequal(hb), || unsafe { t.compare_unequal_unchecked(hb) }, Some(want))?;
            twin($ctx, "hash.compare_unequal_unchecked", &input, || ha.compare_unequal(hb), || unsafe { ha.compare_unequal_unchecked(hb) }, Some(want))?;
        }
        // the general entry points of this build against the oracle as well
        twin($ctx, "compare (unchecked build)", &input, || t.compare(hb), || ha.compare(hb), Some(want))?;
        // the position arrays inside the target
        pa_twins($ctx, &t.block_hash_1(), &a.bh1, &b.bh1, "target.block_hash_1()")?;
        pa_twins($ctx, &t.block_hash_2(), &a.bh2, &b.bh2, "target.block_hash_2()")?;
        pa_twins($ctx, &t.block_hash_2(), &a.bh2, &b.bh1, "target.block_hash_2()")?;
    }};
}

/// A pair of normalized models: equivalent, equal / neighbouring block sizes, short block hashes.
fn pair(ctx: &mut Ctx, cap2: usize) -> (Model, Model) {
    if ctx.rng.chance(1, 4) {
        return gen::asym_pair(&mut ctx.rng, cap2);
    }
    let a = match ctx.rng.below(5) {
        0 => gen::model_second(&mut ctx.rng, cap2).normalized(),
        1 => gen::model_rich(&mut ctx.rng, cap2).normalized(),
        _ => gen::model_norm(&mut ctx.rng, cap2),
    };
    let b = match ctx.rng.below(6) {
        0 | 1 => a.clone(),
        2 => {
            let mut b = a.clone();
            b.log_bs = if ctx.rng.chance(1, 2) { (a.log_bs + 1).min(30) } else { a.log_bs.saturating_sub(1) };
            b
        }
        _ => gen::related_norm(&mut ctx.rng, &a, cap2),
    };
    (a, b)
}

// ---------------------------------------------------------------- constructors

trait PlainU: Plain {
    unsafe fn build_u(block_size: u32, b1: &[u8], b2: &[u8]) -> Self;
    unsafe fn build_near_raw_u(log: u8, b1: &[u8], b2: &[u8]) -> Self;
    unsafe fn build_arrays_u(log: u8, a1: &[u8], a2: &[u8], l1: u8, l2: u8) -> Self;
    unsafe fn init_arrays_u(&mut self, log: u8, a1: &[u8], a2: &[u8], l1: u8, l2: u8);
}

macro_rules! impl_plain_u {
    ($t:ty, $cap2:expr) => {
        impl PlainU for $t {
            unsafe fn build_u(block_size: u32, b1: &[u8], b2: &[u8]) -> Self {
                <$t>::new_from_internals_unchecked(block_size, b1, b2)
            }
            unsafe fn build_near_raw_u(log: u8, b1: &[u8], b2: &[u8]) -> Self {
                <$t>::new_from_internals_near_raw_unchecked(log, b1, b2)
            }
            unsafe fn build_arrays_u(log: u8, a1: &[u8], a2: &[u8], l1: u8, l2: u8) -> Self {
                let a1: &[u8; 64] = a1.try_into().unwrap();
                let a2: &[u8; $cap2] = a2.try_into().unwrap();
                <$t>::new_from_internals_raw_unchecked(log, a1, a2, l1, l2)
            }
            unsafe fn init_arrays_u(&mut self, log: u8, a1: &[u8], a2: &[u8], l1: u8, l2: u8) {
                let a1: &[u8; 64] = a1.try_into().unwrap();
                let a2: &[u8; $cap2] = a2.try_into().unwrap();
                self.init_from_internals_raw_unchecked(log, a1, a2, l1, l2)
            }
        }
    };
}
impl_plain_u!(FuzzyHash, 32);
impl_plain_u!(RawFuzzyHash, 32);
impl_plain_u!(LongFuzzyHash, 64);
impl_plain_u!(LongRawFuzzyHash, 64);

fn constructors<T: PlainU>(ctx: &mut Ctx, m: &Model, used: &Model) -> R {
    let input = || format!("type {}: hash {} (destination of the init form first holds {})", T::NAME, m.text(), used.text());
    let bs = 3u32 << m.log_bs;
    twin_obj::<T>(ctx, "new_from_internals_unchecked", &input, || T::build(bs, &m.bh1, &m.bh2), || unsafe { T::build_u(bs, &m.bh1, &m.bh2) }, m)?;
    twin_obj::<T>(ctx, "new_from_internals_near_raw_unchecked", &input, || T::build_near_raw(m.log_bs, &m.bh1, &m.bh2), || unsafe { T::build_near_raw_u(m.log_bs, &m.bh1, &m.bh2) }, m)?;
    let mut a1 = vec![0u8; 64];
    let mut a2 = vec![0u8; T::CAP2];
    a1[..m.bh1.len()].copy_from_slice(&m.bh1);
    a2[..m.bh2.len()].copy_from_slice(&m.bh2);
    let (l1, l2) = (m.bh1.len() as u8, m.bh2.len() as u8);
    twin_obj::<T>(ctx, "new_from_internals_raw_unchecked", &input, || T::build_arrays(m.log_bs, &a1, &a2, l1, l2), || unsafe { T::build_arrays_u(m.log_bs, &a1, &a2, l1, l2) }, m)?;
    twin_obj::<T>(
        ctx,
        "init_from_internals_raw_unchecked",
        &input,
        || {
            let mut h = T::of(used);
            h.init_arrays(m.log_bs, &a1, &a2, l1, l2);
            h
        },
        || {
            let mut h = T::of(used);
            unsafe { h.init_arrays_u(m.log_bs, &a1, &a2, l1, l2) };
            h
        },
        m,
    )
}

macro_rules! dual_constructors {
    ($ctx:expr, $d:ty, $name:expr, $m:expr) => {{
        let m: &Model = $m;
        let input = || format!("type {}: raw hash {}", $name, m.text());
        let bs = 3u32 << m.log_bs;
        let show = |d: &$d| (d.is_valid(), d.to_raw_form().to_string(), d.to_normalized().to_string(), format!("{:?}", d));
        let want = Some((true, m.text(), m.normalized().text(), format!("{:?}", <$d>::new_from_internals(bs, &m.bh1, &m.bh2))));
        twin($ctx, "dual new_from_internals_unchecked", &input, || show(&<$d>::new_from_internals(bs, &m.bh1, &m.bh2)), || show(&unsafe { <$d>::new_from_internals_unchecked(bs, &m.bh1, &m.bh2) }), want.clone())?;
        twin($ctx, "dual new_from_internals_near_raw_unchecked", &input, || show(&<$d>::new_from_internals_near_raw(m.log_bs, &m.bh1, &m.bh2)), || show(&unsafe { <$d>::new_from_internals_near_raw_unchecked(m.log_bs, &m.bh1, &m.bh2) }), want)?;
    }};
}

// ---------------------------------------------------------------- the explorer

pub fn c14(ctx: &mut Ctx) -> R {
    // block sizes: the whole domain of the unchecked forms
    for n in 0..31u8 {
        ctx.input();
        let input = || format!("log block size {} / block size {}", n, 3u32 << n);
        twin(ctx, "from_log_unchecked", &input, || block_size::from_log(n).unwrap(), || unsafe { block_size::from_log_unchecked(n) }, Some(3u32 << n))?;
        twin(ctx, "log_from_valid_unchecked", &input, || block_size::log_from_valid(3u32 << n), || unsafe { block_size::log_from_valid_unchecked(3u32 << n) }, Some(n))?;
    }
    // score cap: its whole contract domain
    for n in 0..4u8 {
        for l1 in 0..=64u8 {
            for l2 in 0..=64u8 {
                ctx.input();
                let input = || format!("log block size {}, lengths {} and {}", n, l1, l2);
                twin(ctx, "score_cap_on_block_hash_comparison_unchecked", &input,
                    || FuzzyHashCompareTarget::score_cap_on_block_hash_comparison(n, l1, l2),
                    || unsafe { FuzzyHashCompareTarget::score_cap_on_block_hash_comparison_unchecked(n, l1, l2) },
                    Some((1u32 << n) * l1.min(l2) as u32))?;
            }
        }
    }
    let mut target = FuzzyHashCompareTarget::new();
    let mut pa = BlockHashPositionArray::new();
    let mut round = 0u64;
    // the README pair of the crate, against itself and against each other
    let readme = ["6:3ll7QzDkmJmMHkQoO/llSZEnEuLszmbMAWn:VqDk5QtLbW", "6:3ll7QzDkmQjmMoDHglHOxPWT0lT0lT0lB:VqDk+n"];
    for x in readme {
        for y in readme {
            ctx.input();
            let (a, b) = (oracle::ref_parse(x.as_bytes(), 32, true).unwrap().0, oracle::ref_parse(y.as_bytes(), 32, true).unwrap().0);
            let (ha, hb) = (FuzzyHash::of(&a), FuzzyHash::of(&b));
            target.init_from(&ha);
            target_twins!(ctx, &target, &ha, &hb, &a, &b, "FuzzyHash");
        }
    }
    while ctx.alive() {
        round += 1;
        ctx.input();
        // comparison: short and long operands on the same, reused target
        let (a, b) = pair(ctx, 32);
        let (ha, hb) = (FuzzyHash::of(&a), FuzzyHash::of(&b));
        if round % 2 == 0 {
            target.init_from(&ha);
        } else {
            target = FuzzyHashCompareTarget::from(&ha);
        }
        target_twins!(ctx, &target, &ha, &hb, &a, &b, "FuzzyHash");
        let hd = DualFuzzyHash::from(hb);
        target_twins!(ctx, &target, &ha, &hd, &a, &b, "FuzzyHash vs DualFuzzyHash");
        let (a, b) = pair(ctx, 64);
        let (ha, hb) = (LongFuzzyHash::of(&a), LongFuzzyHash::of(&b));
        target.init_from(&ha);
        target_twins!(ctx, &target, &ha, &hb, &a, &b, "LongFuzzyHash");
        // a stand-alone, reused position array; the other string need not be normalized
        let held = match round % 3 {
            0 => gen::bh_rich(&mut ctx.rng, 64),
            1 => gen::bh_edge(&mut ctx.rng, 64),
            _ => gen::bh_norm(&mut ctx.rng, 64),
        };
        let other = if ctx.rng.chance(1, 3) { held.clone() } else { gen::mutate_bh(&mut ctx.rng, &held, 64) };
        pa.init_from(&held);
        pa_twins(ctx, &pa, &held, &other, "reused BlockHashPositionArray")?;
        // raw score: inside its contract
        let l1 = ctx.rng.range(7, 64) as u8;
        let l2 = ctx.rng.range(7, 64) as u8;
        let d = ctx.rng.range(0, l1 as usize + l2 as usize - 14) as u32;
        let input = || format!("lengths {} and {}, edit distance {}", l1, l2, d);
        twin(ctx, "raw_score_by_edit_distance_unchecked", &input,
            || FuzzyHashCompareTarget::raw_score_by_edit_distance(l1, l2, d),
            || unsafe { FuzzyHashCompareTarget::raw_score_by_edit_distance_unchecked(l1, l2, d) },
            Some(oracle::raw_score(l1 as usize, l2 as usize, d)))?;
        // constructors, the init form into a used destination
        let ms = match round % 3 {
            0 => gen::model_second(&mut ctx.rng, 32),
            1 => gen::model_rich(&mut ctx.rng, 32),
            _ => gen::model_raw(&mut ctx.rng, 32),
        };
        let ml = match round % 3 {
            0 => gen::model_second(&mut ctx.rng, 64),
            1 => gen::model_rich(&mut ctx.rng, 64),
            _ => gen::model_raw(&mut ctx.rng, 64),
        };
        let us = gen::model_rich(&mut ctx.rng, 32);
        let ul = gen::model_rich(&mut ctx.rng, 64);
        constructors::<RawFuzzyHash>(ctx, &ms, &us)?;
        constructors::<FuzzyHash>(ctx, &ms.normalized(), &us.normalized())?;
        constructors::<LongRawFuzzyHash>(ctx, &ml, &ul)?;
        constructors::<LongFuzzyHash>(ctx, &ml.normalized(), &ul.normalized())?;
        dual_constructors!(ctx, DualFuzzyHash, "DualFuzzyHash", &ms);
        dual_constructors!(ctx, LongDualFuzzyHash, "LongDualFuzzyHash", &ml);
    }
    Ok(())
}
