//! Uniform access to the six hash types of the crate (only its stable public API).

use crate::oracle::Model;
use ssdeep::{
    DualFuzzyHash, FuzzyHash, FuzzyHashOperationError, LongDualFuzzyHash, LongFuzzyHash, LongRawFuzzyHash, ParseError,
    RawFuzzyHash,
};
use std::fmt::{Debug, Display};
use std::hash::Hash;

pub trait Plain: Copy + Eq + Ord + Hash + Debug + Display + std::str::FromStr<Err = ParseError> {
    const NAME: &'static str;
    const CAP2: usize;
    const NORM: bool;
    const MAX_STR: usize;
    fn empty() -> Self;
    fn parse(b: &[u8]) -> Result<Self, ParseError>;
    fn parse_idx(b: &[u8], i: &mut usize) -> Result<Self, ParseError>;
    fn lb(&self) -> u8;
    fn bs(&self) -> u32;
    fn b1(&self) -> &[u8];
    fn b2(&self) -> &[u8];
    fn l1(&self) -> usize;
    fn l2(&self) -> usize;
    /// the whole fixed-size arrays (block_hash_N_as_array)
    fn arr1(&self) -> &[u8];
    fn arr2(&self) -> &[u8];
    fn valid(&self) -> bool;
    fn str_(&self) -> String;
    fn into_string(self) -> String;
    fn len_str(&self) -> usize;
    fn store(&self, buf: &mut [u8]) -> Result<usize, FuzzyHashOperationError>;
    /// new_from_internals
    fn build(block_size: u32, b1: &[u8], b2: &[u8]) -> Self;
    /// new_from_internals_near_raw
    fn build_near_raw(log: u8, b1: &[u8], b2: &[u8]) -> Self;
    /// new_from_internals_raw (slices must have the array lengths 64 / CAP2)
    fn build_arrays(log: u8, a1: &[u8], a2: &[u8], l1: u8, l2: u8) -> Self;
    /// init_from_internals_raw
    fn init_arrays(&mut self, log: u8, a1: &[u8], a2: &[u8], l1: u8, l2: u8);
    fn is_norm(&self) -> bool;
    fn norm_in_place(&mut self);
    fn clone_norm(&self) -> Self;
    fn feq(&self, o: &Self) -> bool;

    fn model(&self) -> Model {
        Model { log_bs: self.lb(), bh1: self.b1().to_vec(), bh2: self.b2().to_vec() }
    }
    /// Validity as the property states it, from what the accessors show: lengths within
    /// capacity, symbols below 64, unused tail zero, normalized where the type says so.
    fn ref_valid(&self) -> bool {
        let (a1, a2, l1, l2) = (self.arr1(), self.arr2(), self.l1(), self.l2());
        let part = |a: &[u8], l: usize, cap: usize| {
            a.len() == cap
                && l <= cap
                && a[..l].iter().all(|&x| x < 64)
                && a[l..].iter().all(|&x| x == 0)
                && (!Self::NORM || crate::oracle::collapse(&a[..l]) == a[..l])
        };
        self.lb() < 31 && part(a1, l1, 64) && part(a2, l2, Self::CAP2) && self.b1() == &a1[..l1.min(64)] && self.b2() == &a2[..l2.min(a2.len())]
    }
    /// is_valid() as reported and as it should be; true when they agree on "valid"
    fn valid_both(&self) -> bool {
        self.valid() && self.ref_valid()
    }
    fn of(m: &Model) -> Self {
        Self::build(3u32 << m.log_bs, &m.bh1, &m.bh2)
    }
}

macro_rules! impl_plain {
    ($t:ty, $name:expr, $cap2:expr, $norm:expr) => {
        impl Plain for $t {
            const NAME: &'static str = $name;
            const CAP2: usize = $cap2;
            const NORM: bool = $norm;
            const MAX_STR: usize = <$t>::MAX_LEN_IN_STR;
            fn empty() -> Self {
                <$t>::new()
            }
            fn parse(b: &[u8]) -> Result<Self, ParseError> {
                <$t>::from_bytes(b)
            }
            fn parse_idx(b: &[u8], i: &mut usize) -> Result<Self, ParseError> {
                <$t>::from_bytes_with_last_index(b, i)
            }
            fn lb(&self) -> u8 {
                self.log_block_size()
            }
            fn bs(&self) -> u32 {
                self.block_size()
            }
            fn b1(&self) -> &[u8] {
                self.block_hash_1()
            }
            fn b2(&self) -> &[u8] {
                self.block_hash_2()
            }
            fn l1(&self) -> usize {
                self.block_hash_1_len()
            }
            fn l2(&self) -> usize {
                self.block_hash_2_len()
            }
            fn arr1(&self) -> &[u8] {
                &self.block_hash_1_as_array()[..]
            }
            fn arr2(&self) -> &[u8] {
                &self.block_hash_2_as_array()[..]
            }
            fn valid(&self) -> bool {
                self.is_valid()
            }
            fn str_(&self) -> String {
                <$t>::to_string(self)
            }
            fn into_string(self) -> String {
                String::from(self)
            }
            fn len_str(&self) -> usize {
                self.len_in_str()
            }
            fn store(&self, buf: &mut [u8]) -> Result<usize, FuzzyHashOperationError> {
                self.store_into_bytes(buf)
            }
            fn build(block_size: u32, b1: &[u8], b2: &[u8]) -> Self {
                <$t>::new_from_internals(block_size, b1, b2)
            }
            fn build_near_raw(log: u8, b1: &[u8], b2: &[u8]) -> Self {
                <$t>::new_from_internals_near_raw(log, b1, b2)
            }
            fn build_arrays(log: u8, a1: &[u8], a2: &[u8], l1: u8, l2: u8) -> Self {
                let a1: &[u8; 64] = a1.try_into().unwrap();
                let a2: &[u8; $cap2] = a2.try_into().unwrap();
                <$t>::new_from_internals_raw(log, a1, a2, l1, l2)
            }
            fn init_arrays(&mut self, log: u8, a1: &[u8], a2: &[u8], l1: u8, l2: u8) {
                let a1: &[u8; 64] = a1.try_into().unwrap();
                let a2: &[u8; $cap2] = a2.try_into().unwrap();
                self.init_from_internals_raw(log, a1, a2, l1, l2)
            }
            fn is_norm(&self) -> bool {
                self.is_normalized()
            }
            fn norm_in_place(&mut self) {
                self.normalize_in_place()
            }
            fn clone_norm(&self) -> Self {
                self.clone_normalized()
            }
            fn feq(&self, o: &Self) -> bool {
                self.full_eq(o)
            }
        }
    };
}

impl_plain!(FuzzyHash, "FuzzyHash", 32, true);
impl_plain!(RawFuzzyHash, "RawFuzzyHash", 32, false);
impl_plain!(LongFuzzyHash, "LongFuzzyHash", 64, true);
impl_plain!(LongRawFuzzyHash, "LongRawFuzzyHash", 64, false);

pub trait Dual: Copy + Eq + Ord + Hash + Debug + Display + std::str::FromStr<Err = ParseError> {
    type Raw: Plain;
    type Norm: Plain;
    const NAME: &'static str;
    fn empty() -> Self;
    fn parse(b: &[u8]) -> Result<Self, ParseError>;
    fn parse_idx(b: &[u8], i: &mut usize) -> Result<Self, ParseError>;
    fn from_raw(r: &Self::Raw) -> Self;
    fn from_raw_value(r: Self::Raw) -> Self;
    fn from_norm(n: &Self::Norm) -> Self;
    fn from_norm_value(n: Self::Norm) -> Self;
    fn init_from_raw(&mut self, r: &Self::Raw);
    fn build(block_size: u32, b1: &[u8], b2: &[u8]) -> Self;
    fn build_near_raw(log: u8, b1: &[u8], b2: &[u8]) -> Self;
    fn to_raw(&self) -> Self::Raw;
    fn into_mut_raw(&self, r: &mut Self::Raw);
    fn as_norm(&self) -> &Self::Norm;
    fn to_norm(&self) -> Self::Norm;
    fn raw_string(&self) -> String;
    fn norm_string(&self) -> String;
    fn norm_in_place(&mut self);
    fn is_norm(&self) -> bool;
    fn valid(&self) -> bool;
    fn lb(&self) -> u8;
    fn bs(&self) -> u32;
}

macro_rules! impl_dual {
    ($t:ty, $name:expr, $raw:ty, $norm:ty) => {
        impl Dual for $t {
            type Raw = $raw;
            type Norm = $norm;
            const NAME: &'static str = $name;
            fn empty() -> Self {
                <$t>::new()
            }
            fn parse(b: &[u8]) -> Result<Self, ParseError> {
                <$t>::from_bytes(b)
            }
            fn parse_idx(b: &[u8], i: &mut usize) -> Result<Self, ParseError> {
                <$t>::from_bytes_with_last_index(b, i)
            }
            fn from_raw(r: &$raw) -> Self {
                <$t>::from_raw_form(r)
            }
            fn from_raw_value(r: $raw) -> Self {
                <$t>::from(r)
            }
            fn from_norm(n: &$norm) -> Self {
                <$t>::from_normalized(n)
            }
            fn from_norm_value(n: $norm) -> Self {
                <$t>::from(n)
            }
            fn init_from_raw(&mut self, r: &$raw) {
                self.init_from_raw_form(r)
            }
            fn build(block_size: u32, b1: &[u8], b2: &[u8]) -> Self {
                <$t>::new_from_internals(block_size, b1, b2)
            }
            fn build_near_raw(log: u8, b1: &[u8], b2: &[u8]) -> Self {
                <$t>::new_from_internals_near_raw(log, b1, b2)
            }
            fn to_raw(&self) -> $raw {
                self.to_raw_form()
            }
            fn into_mut_raw(&self, r: &mut $raw) {
                self.into_mut_raw_form(r)
            }
            fn as_norm(&self) -> &$norm {
                self.as_normalized()
            }
            fn to_norm(&self) -> $norm {
                self.to_normalized()
            }
            fn raw_string(&self) -> String {
                self.to_raw_form_string()
            }
            fn norm_string(&self) -> String {
                self.to_normalized_string()
            }
            fn norm_in_place(&mut self) {
                self.normalize_in_place()
            }
            fn is_norm(&self) -> bool {
                self.is_normalized()
            }
            fn valid(&self) -> bool {
                self.is_valid()
            }
            fn lb(&self) -> u8 {
                self.log_block_size()
            }
            fn bs(&self) -> u32 {
                self.block_size()
            }
        }
    };
}

impl_dual!(DualFuzzyHash, "DualFuzzyHash", RawFuzzyHash, FuzzyHash);
impl_dual!(LongDualFuzzyHash, "LongDualFuzzyHash", LongRawFuzzyHash, LongFuzzyHash);

/// raw <-> normalized conversions of one width
pub trait Family {
    type Raw: Plain;
    type Norm: Plain;
    type D: Dual<Raw = Self::Raw, Norm = Self::Norm>;
    fn normalize(r: &Self::Raw) -> Self::Norm;
    fn normalize_norm(n: &Self::Norm) -> Self::Norm;
    fn from_raw_form(r: &Self::Raw) -> Self::Norm;
    fn norm_from(r: Self::Raw) -> Self::Norm;
    fn to_raw_form(n: &Self::Norm) -> Self::Raw;
    fn from_normalized(n: &Self::Norm) -> Self::Raw;
    fn raw_from(n: Self::Norm) -> Self::Raw;
    fn into_mut_raw_form(n: &Self::Norm, r: &mut Self::Raw);
}

macro_rules! impl_family {
    ($f:ident, $raw:ty, $norm:ty, $dual:ty) => {
        pub struct $f;
        impl Family for $f {
            type Raw = $raw;
            type Norm = $norm;
            type D = $dual;
            fn normalize(r: &$raw) -> $norm {
                r.normalize()
            }
            fn normalize_norm(n: &$norm) -> $norm {
                n.normalize()
            }
            fn from_raw_form(r: &$raw) -> $norm {
                <$norm>::from_raw_form(r)
            }
            fn norm_from(r: $raw) -> $norm {
                <$norm>::from(r)
            }
            fn to_raw_form(n: &$norm) -> $raw {
                n.to_raw_form()
            }
            fn from_normalized(n: &$norm) -> $raw {
                <$raw>::from_normalized(n)
            }
            fn raw_from(n: $norm) -> $raw {
                <$raw>::from(n)
            }
            fn into_mut_raw_form(n: &$norm, r: &mut $raw) {
                n.into_mut_raw_form(r)
            }
        }
    };
}

impl_family!(ShortFamily, RawFuzzyHash, FuzzyHash, DualFuzzyHash);
impl_family!(LongFamily, LongRawFuzzyHash, LongFuzzyHash, LongDualFuzzyHash);

/// short <-> long conversions of one normalization kind
pub trait Width {
    type Short: Plain;
    type Long: Plain;
    fn to_long_form(s: &Self::Short) -> Self::Long;
    fn from_short_form(s: &Self::Short) -> Self::Long;
    fn long_from(s: Self::Short) -> Self::Long;
    fn into_mut_long_form(s: &Self::Short, l: &mut Self::Long);
    fn try_into_mut_short(l: &Self::Long, s: &mut Self::Short) -> Result<(), FuzzyHashOperationError>;
    fn short_try_from(l: Self::Long) -> Result<Self::Short, FuzzyHashOperationError>;
}

macro_rules! impl_width {
    ($w:ident, $short:ty, $long:ty) => {
        pub struct $w;
        impl Width for $w {
            type Short = $short;
            type Long = $long;
            fn to_long_form(s: &$short) -> $long {
                s.to_long_form()
            }
            fn from_short_form(s: &$short) -> $long {
                <$long>::from_short_form(s)
            }
            fn long_from(s: $short) -> $long {
                <$long>::from(s)
            }
            fn into_mut_long_form(s: &$short, l: &mut $long) {
                s.into_mut_long_form(l)
            }
            fn try_into_mut_short(l: &$long, s: &mut $short) -> Result<(), FuzzyHashOperationError> {
                l.try_into_mut_short(s)
            }
            fn short_try_from(l: $long) -> Result<$short, FuzzyHashOperationError> {
                <$short>::try_from(l)
            }
        }
    };
}

impl_width!(NormWidth, FuzzyHash, LongFuzzyHash);
impl_width!(RawWidth, RawFuzzyHash, LongRawFuzzyHash);
