//! PRNG, run context (budget, counters), disagreement record, panic capture.

use std::collections::BTreeSet;
use std::panic::{catch_unwind, AssertUnwindSafe};
use std::sync::Mutex;
use std::time::{Duration, Instant};

/// splitmix64
#[derive(Clone)]
pub struct Rng(pub u64);

impl Rng {
    pub fn new(seed: u64) -> Self {
        Rng(seed ^ 0x9e37_79b9_7f4a_7c15)
    }
    pub fn next(&mut self) -> u64 {
        self.0 = self.0.wrapping_add(0x9e37_79b9_7f4a_7c15);
        let mut z = self.0;
        z = (z ^ (z >> 30)).wrapping_mul(0xbf58_476d_1ce4_e5b9);
        z = (z ^ (z >> 27)).wrapping_mul(0x94d0_49bb_1331_11eb);
        z ^ (z >> 31)
    }
    /// uniform-ish in 0..n (n > 0)
    pub fn below(&mut self, n: u64) -> u64 {
        self.next() % n
    }
    pub fn range(&mut self, lo: usize, hi_incl: usize) -> usize {
        lo + self.below((hi_incl - lo + 1) as u64) as usize
    }
    pub fn byte(&mut self) -> u8 {
        self.next() as u8
    }
    pub fn chance(&mut self, num: u64, den: u64) -> bool {
        self.below(den) < num
    }
    pub fn pick<'a, T>(&mut self, xs: &'a [T]) -> &'a T {
        &xs[self.below(xs.len() as u64) as usize]
    }
}

/// A disagreement between the real code and the oracle.
pub struct Fail {
    pub check: &'static str,
    pub details: String,
}

pub type R = Result<(), Fail>;

pub struct Ctx {
    pub rng: Rng,
    pub seed: u64,
    deadline: Instant,
    pub explored: u64,
    pub checks: BTreeSet<&'static str>,
}

impl Ctx {
    pub fn new(seed: u64, budget: f64) -> Self {
        Ctx {
            rng: Rng::new(seed),
            seed,
            deadline: Instant::now() + Duration::from_secs_f64(budget.max(0.0)),
            explored: 0,
            checks: BTreeSet::new(),
        }
    }
    /// Shortens the budget to `fraction` of what is left; returns the old deadline for `restore`.
    pub fn narrow(&mut self, fraction: f64) -> Instant {
        let old = self.deadline;
        let now = Instant::now();
        if old > now {
            self.deadline = now + (old - now).mul_f64(fraction);
        }
        old
    }
    pub fn restore(&mut self, deadline: Instant) {
        self.deadline = deadline;
    }
    pub fn alive(&self) -> bool {
        Instant::now() < self.deadline
    }
    /// one more input explored
    pub fn input(&mut self) {
        self.explored += 1;
    }
    /// record a check; a false condition is a disagreement
    pub fn check(&mut self, name: &'static str, ok: bool, details: impl FnOnce() -> String) -> R {
        self.checks.insert(name);
        if ok {
            Ok(())
        } else {
            Err(Fail { check: name, details: details() })
        }
    }
    /// run real code that must not panic; a panic is a disagreement
    pub fn nopanic<T>(
        &mut self,
        name: &'static str,
        f: impl FnOnce() -> T,
        input: impl FnOnce() -> String,
    ) -> Result<T, Fail> {
        self.checks.insert(name);
        match guard(f) {
            Ok(v) => Ok(v),
            Err(msg) => Err(Fail {
                check: name,
                details: format!(
                    "{}\nreal code: PANICKED: {} (replay is built in release mode with overflow checks on, debug assertions off)\noracle: this operation never panics",
                    input(), msg
                ),
            }),
        }
    }
}

static LAST_PANIC: Mutex<String> = Mutex::new(String::new());

pub fn install_quiet_panic_hook() {
    std::panic::set_hook(Box::new(|info| {
        if let Ok(mut g) = LAST_PANIC.lock() {
            *g = info.to_string().replace('\n', " ");
        }
    }));
}

/// Runs `f`, turning a panic into Err(message).
pub fn guard<T>(f: impl FnOnce() -> T) -> Result<T, String> {
    match catch_unwind(AssertUnwindSafe(f)) {
        Ok(v) => Ok(v),
        Err(_) => Err(LAST_PANIC.lock().map(|g| g.clone()).unwrap_or_default()),
    }
}

/// Hex; a run of 12 or more equal bytes is written `(xx*count)`.
pub fn hex(b: &[u8]) -> String {
    let mut s = String::with_capacity(b.len() * 2);
    let mut i = 0;
    while i < b.len() {
        let mut j = i;
        while j < b.len() && b[j] == b[i] {
            j += 1;
        }
        if j - i >= 12 {
            s.push_str(&format!("({:02x}*{})", b[i], j - i));
        } else {
            for x in &b[i..j] {
                s.push_str(&format!("{:02x}", x));
            }
        }
        i = j;
    }
    s
}

/// Bytes for a report: hex, abbreviated in the middle when very long (length always stated).
pub fn show_bytes(b: &[u8]) -> String {
    let h = hex(b);
    if h.len() <= 4600 {
        format!("len={} hex={}", b.len(), h)
    } else {
        format!(
            "len={} hex(first 1500 bytes)={} ... hex(last 300 bytes)={} [whole input: fnv1a64={:016x}]",
            b.len(),
            hex(&b[..1500.min(b.len())]),
            hex(&b[b.len().saturating_sub(300)..]),
            b.iter().fold(0xcbf29ce484222325u64, |h, &x| (h ^ x as u64).wrapping_mul(0x100000001b3))
        )
    }
}

/// Text for a report: printable as is, otherwise escaped.
pub fn show_text(b: &[u8]) -> String {
    let mut s = String::new();
    for &c in b {
        if (0x20..0x7f).contains(&c) && c != b'\\' && c != b'"' {
            s.push(c as char);
        } else {
            s.push_str(&format!("\\x{:02x}", c));
        }
    }
    format!("b\"{}\" (len={})", s, b.len())
}

/// `h += &[u8; N]` for the chunk's length N, when N is one of the listed constants
/// (evaluates to whether the array form was applied).
#[macro_export]
macro_rules! add_array {
    ($h:expr, $chunk:expr, [$($n:literal),*]) => {{
        let chunk: &[u8] = $chunk;
        match chunk.len() {
            $( $n => { let a: &[u8; $n] = chunk.try_into().unwrap(); $h += a; true } )*
            _ => false,
        }
    }};
}

/// the array lengths of `add_array_std!`
pub const ARRAY_NS: [usize; 18] = [1, 2, 3, 6, 7, 8, 9, 10, 12, 13, 14, 15, 16, 20, 21, 33, 64, 100];

#[macro_export]
macro_rules! add_array_std {
    ($h:expr, $chunk:expr) => {
        $crate::add_array!($h, $chunk, [1, 2, 3, 6, 7, 8, 9, 10, 12, 13, 14, 15, 16, 20, 21, 33, 64, 100])
    };
}
