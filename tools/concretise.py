#!/usr/bin/env python3
"""(C) the concretiser — never decides anything (DESIGN §1.1).

After a back end has reported a failed obligation it looks for a concrete input on
which the real code (a fresh build of the working tree, linked into replay/) disagrees
with an executable oracle, so that the VIOLATION carries something a human can run.
If it finds nothing the violation is still reported, ending in no-failing-input-found.

How it works: replay/Cargo.toml.in is materialised as $CACHE/replay-work/Cargo.toml with
the path dependency pointing at $VERIF_REPO/ffuzzy (the sources stay in replay/src and are
referenced by path), built with `cargo build --release --offline` into
$CACHE/replay-target, and run as `replay <ID> <seed> <budget>`.

Command line (for humans):
    concretise.py <ID> [quick|thorough] [seed]     run one property
    concretise.py --selftest [seconds] [features]  every property on the current tree (features: comma-separated
                                                   library features, e.g. `unchecked`; C14 only explores with them)
"""
import os
import re
import subprocess
import sys

sys.path.insert(0, os.path.dirname(os.path.abspath(__file__)))
import extract

VERIF = extract.VERIF
HOOK = 'verif_after_zero_bytes'


def _has_hook(ffuzzy):
    """Does the tree under test carry the large-size hook (cfg a4lg_ffuzzy_verif)?"""
    try:
        with open(os.path.join(ffuzzy, 'src', 'internals', 'generate.rs'), encoding='utf-8', errors='replace') as fh:
            return re.search(r'fn\s+' + HOOK + r'\b', fh.read()) is not None
    except OSError:
        return False


def build(repo=None, features=None):
    """Materialise and build the replay crate against <repo>/ffuzzy.

    Returns (path of the binary or None, note)."""
    repo = repo or extract.REPO
    rdir = os.path.join(VERIF, 'replay')
    template = os.path.join(rdir, 'Cargo.toml.in')
    main_rs = os.path.join(rdir, 'src', 'main.rs')
    if not (os.path.exists(template) and os.path.exists(main_rs)):
        return None, 'no concretiser sources (replay/Cargo.toml.in, replay/src/main.rs)'
    ffuzzy = os.path.abspath(os.path.join(repo, 'ffuzzy'))
    if not os.path.exists(os.path.join(ffuzzy, 'Cargo.toml')):
        return None, 'no crate at %s' % ffuzzy
    suffix = ('-' + '-'.join(features)) if features else ''
    work = os.path.join(extract.CACHE, 'replay-work' + suffix)
    os.makedirs(work, exist_ok=True)
    with open(template) as fh:
        manifest = fh.read().replace('@FFUZZY_PATH@', ffuzzy).replace('@SRC_MAIN@', main_rs)
    if features:
        manifest = manifest.replace('path = "%s" }' % ffuzzy, 'path = "%s", features = [%s] }' % (ffuzzy, ', '.join('"%s"' % f for f in features)))
    mpath = os.path.join(work, 'Cargo.toml')
    old = None
    if os.path.exists(mpath):
        with open(mpath) as fh:
            old = fh.read()
    if old != manifest:
        with open(mpath, 'w') as fh:
            fh.write(manifest)
        # a lock file written for another tree may name other dependency versions
        try:
            os.remove(os.path.join(work, 'Cargo.lock'))
        except OSError:
            pass
    env = dict(os.environ)
    env['CARGO_NET_OFFLINE'] = 'true'
    target = os.path.join(extract.CACHE, 'replay-target' + suffix)
    env['CARGO_TARGET_DIR'] = target
    flags = env.get('RUSTFLAGS', '')
    if _has_hook(ffuzzy) and 'a4lg_ffuzzy_verif' not in flags:
        flags = (flags + ' --cfg a4lg_ffuzzy_verif').strip()
    if flags:
        env['RUSTFLAGS'] = flags
    cmd = ['cargo', 'build', '--release', '--offline', '--quiet', '--manifest-path', mpath]
    own = []
    if features and ('unchecked' in features or 'unsafe' in features):
        # the library then has its `*_unchecked` entry points: build the C14 explorer of the replay crate too
        own.append('unchecked')
    if features and 'strict-parser' in features:
        # the reference parser of the replay crate becomes the strict one; C14 runs the strict-parser explorer
        own.append('strict-parser')
    if own:
        cmd += ['--features', ','.join(own)]
    try:
        p = subprocess.run(cmd,
                           env=env, stdout=subprocess.PIPE, stderr=subprocess.PIPE, text=True, timeout=900)
    except subprocess.TimeoutExpired:
        return None, 'concretiser build timed out'
    if p.returncode != 0:
        errs = [l for l in p.stderr.split('\n') if l.startswith('error')]
        return None, 'concretiser did not build against this tree: ' + (' | '.join(errs[:4]) or p.stderr[-400:].replace('\n', ' '))
    binary = os.path.join(target, 'release', 'replay')
    if not os.path.exists(binary):
        return None, 'concretiser built but %s is missing' % binary
    return binary, 'built against %s' % ffuzzy


def run(binary, args, timeout):
    try:
        p = subprocess.run([binary] + [str(a) for a in args], stdout=subprocess.PIPE, stderr=subprocess.PIPE,
                           text=True, errors='replace', timeout=timeout)
    except subprocess.TimeoutExpired:
        return None
    return p


def explore_feature_build(features, pids, seconds, seed=0):
    """Bounded exploration (NOT a proof): build the replay program against the tree with the given cargo features and run the
    independent oracles of the listed properties for `seconds` each.  Returns (found_text or None, report list)."""
    binary, note = build(features=features)
    rep = []
    if binary is None:
        return None, [{'features': features, 'note': note}]
    for pid in pids:
        p = run(binary, [pid, int(seed) & 0xFFFFFFFFFFFFFFFF, seconds], seconds + 120)
        if p is None:
            rep.append({'features': features, 'property': pid, 'result': 'timeout'})
            continue
        out = p.stdout
        if 'FAILING-INPUT' in out:
            rep.append({'features': features, 'property': pid, 'result': 'disagreement'})
            return out[out.index('FAILING-INPUT'):][:6000], rep
        last = out.strip().split('\n')[-1][:200] if out.strip() else 'explored 0 inputs'
        rep.append({'features': features, 'property': pid, 'result': last})
    return None, rep


def miri_explore(features, pid, seconds, seed=0, timeout=3600):
    """BOUNDED (not a proof): run the replay program of one property under Miri (Stacked Borrows) against the build with the
    given features: the aliasing discipline of the raw-pointer code, which the index model of rule R17 does not cover.
    Returns (ub_text or None, report dict).  Only a Miri 'Undefined Behavior' diagnostic counts; any other failure is a note."""
    binary, note = build(features=features)     # materialises the manifest (and proves the tree builds)
    if binary is None:
        return None, {'features': features, 'miri': True, 'note': note}
    suffix = ('-' + '-'.join(features)) if features else ''
    mpath = os.path.join(extract.CACHE, 'replay-work' + suffix, 'Cargo.toml')
    env = dict(os.environ)
    env['CARGO_NET_OFFLINE'] = 'true'
    env['CARGO_TARGET_DIR'] = os.path.join(extract.CACHE, 'miri-target')
    env['MIRIFLAGS'] = '-Zmiri-disable-isolation'
    ffuzzy = os.path.abspath(os.path.join(extract.REPO, 'ffuzzy'))
    if _has_hook(ffuzzy):
        env['RUSTFLAGS'] = (env.get('RUSTFLAGS', '') + ' --cfg a4lg_ffuzzy_verif').strip()
    try:
        p = subprocess.run(['cargo', '+nightly', 'miri', 'run', '--offline', '--quiet', '--manifest-path', mpath, '--',
                            pid, str(int(seed) & 0xFFFFFFFFFFFFFFFF), str(seconds)],
                           env=env, stdout=subprocess.PIPE, stderr=subprocess.PIPE, text=True, errors='replace', timeout=timeout)
    except subprocess.TimeoutExpired:
        return None, {'features': features, 'miri': True, 'property': pid, 'result': 'timeout'}
    err = p.stderr
    if 'Undefined Behavior' in err:
        i = err.index('Undefined Behavior')
        return err[max(0, i - 200):i + 3000], {'features': features, 'miri': True, 'property': pid, 'result': 'undefined behaviour reported'}
    out = p.stdout.strip()
    last = out.split('\n')[-1][:200] if out else ('no output (exit %d): %s' % (p.returncode, err[-300:].replace('\n', ' ')))
    return None, {'features': features, 'miri': True, 'property': pid, 'result': 'Miri (Stacked Borrows), no undefined behaviour: ' + last}


def find_failing_input(pid, violations, tier, seed):
    """violations: the failed obligations (unused for the search itself: the replay program
    explores the whole property).  Returns {'found': True, 'text': ...} or
    {'found': False, 'note': ...}."""
    budget = 20 if tier == 'quick' else 300
    binary, note = build()
    if binary is None:
        return {'found': False, 'note': note}
    p = run(binary, [pid, int(seed) & 0xFFFFFFFFFFFFFFFF, budget], budget + 120)
    if p is None:
        return {'found': False, 'note': 'concretiser timed out'}
    out = p.stdout
    if 'FAILING-INPUT' in out:
        return {'found': True, 'text': out[out.index('FAILING-INPUT'):][:6000]}
    if p.returncode != 0:
        return {'found': False, 'note': 'concretiser crashed (exit %d): %s' % (p.returncode, (p.stderr or out)[-400:].replace('\n', ' '))}
    last = out.strip().split('\n')[-1][:200] if out.strip() else 'explored 0 inputs'
    return {'found': False, 'note': 'concretiser ' + last}


def main(argv):
    if len(argv) >= 2 and argv[1] == '--selftest':
        feats = [f for f in argv[3].split(',') if f] if len(argv) > 3 else None
        binary, note = build(features=feats)
        if binary is None:
            print(note)
            return 2
        per = argv[2] if len(argv) > 2 else '2'
        p = run(binary, ['--selftest', per], 20 * float(per) + 600)
        if p is None:
            print('selftest timed out')
            return 2
        sys.stdout.write(p.stdout)
        return p.returncode
    if len(argv) < 2:
        print(__doc__)
        return 2
    tier = argv[2] if len(argv) > 2 else 'quick'
    seed = int(argv[3]) if len(argv) > 3 else int(os.environ.get('VERIF_SEED', '0') or 0)
    r = find_failing_input(argv[1], [], tier, seed)
    print(r.get('text') or r.get('note'))
    return 0


if __name__ == '__main__':
    sys.exit(main(sys.argv))
