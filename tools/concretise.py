#!/usr/bin/env python3
"""(C) the concretiser — never decides anything (DESIGN §1.1).

After a back end has reported a failed obligation it looks for a concrete input on
which the real code (a fresh build of the working tree, linked into replay/) disagrees
with an executable oracle, so that the VIOLATION carries something a human can run.
If it finds nothing the violation is still reported, ending in no-failing-input-found.
"""
import json
import os
import shutil
import subprocess
import sys
import tempfile

sys.path.insert(0, os.path.dirname(os.path.abspath(__file__)))
import extract

VERIF = extract.VERIF


def find_failing_input(pid, violations, tier, seed):
    rdir = os.path.join(VERIF, 'replay')
    if not os.path.exists(os.path.join(rdir, 'Cargo.toml')):
        return {'found': False, 'note': 'no concretiser built'}
    budget = 20 if tier == 'quick' else 300
    work = os.path.join(extract.CACHE, 'replay-work')
    os.makedirs(work, exist_ok=True)
    env = dict(os.environ)
    env['CARGO_NET_OFFLINE'] = 'true'
    env['CARGO_TARGET_DIR'] = os.path.join(extract.CACHE, 'replay-target')
    env['VERIF_FFUZZY_PATH'] = os.path.join(extract.REPO, 'ffuzzy')
    env['RUSTFLAGS'] = (env.get('RUSTFLAGS', '') + ' --cfg a4lg_ffuzzy_verif').strip()
    # the replay crate depends on the working tree by path (REPO/ffuzzy); build fresh
    manifest = os.path.join(rdir, 'Cargo.toml')
    try:
        p = subprocess.run(['cargo', 'run', '--offline', '--release', '--quiet', '--manifest-path', manifest, '--',
                            pid, str(seed), str(budget)], env=env, stdout=subprocess.PIPE, stderr=subprocess.PIPE,
                           text=True, timeout=budget + 600)
    except subprocess.TimeoutExpired:
        return {'found': False, 'note': 'concretiser timed out'}
    out = p.stdout
    if 'FAILING-INPUT' in out:
        return {'found': True, 'text': out[out.index('FAILING-INPUT'):][:6000]}
    if p.returncode != 0:
        return {'found': False, 'note': 'concretiser did not build/run against this tree: ' + p.stderr[-400:].replace('\n', ' ')}
    return {'found': False, 'note': 'concretiser explored ' + (out.strip().split('\n')[-1][:200] if out.strip() else '0 inputs')}
