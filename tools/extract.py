#!/usr/bin/env python3
"""Assemble one Verus input file per unit from
  (a) rustc's macro/cfg expansion of the *current* /repo working tree and
  (b) a contract file contracts/<unit>.vc.

The output is a pruned copy of the expanded crate: same module tree, same
`use` lines (those that still resolve), the selected items with the fixed
desugaring rules of rules.py applied, and the contracts injected.  Nothing
else is edited.  See DESIGN.md §3.
"""
import hashlib
import json
import os
import re
import subprocess
import sys

sys.path.insert(0, os.path.dirname(os.path.abspath(__file__)))
import rsparse
from rsparse import parse_items, match_delim, norm_ws, tokens, impl_header_info
import rules
import threading

# the rules module numbers its temporaries with a module-level counter (reset per function body) and FUZZY_LOG / DETACH state is
# module-level too: assembling is cheap, so units are assembled one at a time even when bin/check verifies them in parallel
_ASSEMBLE_LOCK = threading.RLock()

VERIF = os.path.dirname(os.path.dirname(os.path.abspath(__file__)))
REPO = os.environ.get('VERIF_REPO', '/repo')
CACHE = os.environ.get('VERIF_CACHE', os.path.join(VERIF, '.cache'))


class Undecided(Exception):
    """Extraction cannot proceed (anchor lost, construct outside the rule set,
    ambiguous selector…).  Mapped to exit 2, never to a verdict."""


# --------------------------------------------------------------------------
# (a) expansion

def tree_hash(features):
    h = hashlib.sha256()
    root = os.path.join(REPO, 'ffuzzy')
    paths = []
    for d, _, fs in os.walk(os.path.join(root, 'src')):
        for f in fs:
            paths.append(os.path.join(d, f))
    paths += [os.path.join(root, 'Cargo.toml'), os.path.join(root, 'build.rs'),
              os.path.join(REPO, 'Cargo.toml'), os.path.join(REPO, 'Cargo.lock')]
    for p in sorted(paths):
        if os.path.exists(p):
            h.update(p.encode())
            h.update(open(p, 'rb').read())
    h.update(('features=' + ','.join(sorted(features))).encode())
    return h.hexdigest()


def expand(features=(), no_default=False, release=False):
    """Return the text of the expanded crate for the given feature set."""
    os.makedirs(CACHE, exist_ok=True)
    key = tree_hash(list(features) + (['!default'] if no_default else []) + (['!release'] if release else []))
    out = os.path.join(CACHE, 'expanded-%s.rs' % key[:24])
    if os.path.exists(out) and os.path.getsize(out) > 0:
        return open(out).read(), out
    env = dict(os.environ)
    env['RUSTC_BOOTSTRAP'] = '1'
    env['CARGO_NET_OFFLINE'] = 'true'
    env['CARGO_TARGET_DIR'] = os.path.join(CACHE, 'target-expand')
    cmd = ['cargo', 'rustc', '--offline', '--lib']
    if release:
        cmd.append('--release')
    if no_default:
        cmd.append('--no-default-features')
    if features:
        cmd += ['--features', ','.join(features)]
    cmd += ['--', '-Zunpretty=expanded']
    p = subprocess.run(cmd, cwd=os.path.join(REPO, 'ffuzzy'), env=env,
                       stdout=subprocess.PIPE, stderr=subprocess.PIPE, text=True)
    if p.returncode != 0 or not p.stdout.strip():
        raise Undecided('macro expansion of the working tree failed (does not compile?):\n' + p.stderr[-3000:])
    # drop stale cache entries (keep the cache bounded)
    def _mt(f):
        try:
            return os.path.getmtime(os.path.join(CACHE, f))
        except OSError:
            return 0.0
    # (other threads / processes may be writing their own expansion: never look at *.tmp files)
    olds = sorted((f for f in os.listdir(CACHE) if f.startswith('expanded-') and f.endswith('.rs')), key=_mt)
    for f in olds[:-24]:
        try:
            os.remove(os.path.join(CACHE, f))
        except OSError:
            pass
    tmp = '%s.%d.tmp' % (out, os.getpid())
    with open(tmp, 'w') as fh:
        fh.write(p.stdout)
    os.replace(tmp, out)
    return p.stdout, out


# --------------------------------------------------------------------------
# (b) contract file

class FnSpec:
    def __init__(self, selector, line):
        self.selector = selector
        self.line = line
        self.ret = None
        self.requires = []      # (tags, text)
        self.ensures = []
        self.decreases = None
        self.loops = {}         # ordinal -> dict(invariant=[(tags,text)], decreases=str, ensures=[...], except_break=[...])
        self.ats = []           # (anchor, where, nth, text, tags)
        self.attrs = []
        self.tags = []          # default tags for untagged obligations of this function
        self.as_inherent = None
        self.external_body = False
        self.no_body = False
        self.loop_hints = {}
        self.subst = []         # (regex, replacement, reason) — declared, logged textual adaptation (R11/R12 family)
        self.impl_match = None
        self.may_fail = []
        self.no_panic_when = None
        self.fmt_args = None          # R20: name of the emitted Display::fmt of the argument types
        self.strip_nested = False     # R19
        self.debug_builders = False   # R18
        self.ptr_model = []        # R17: (array expression, element type, [pointer names])
        self.concrete_ret = None   # R14: `-> impl '_ + Traits` -> the concrete type the body constructs
        self.opens = None
        self.returns = None


class ModSpec:
    def __init__(self, path):
        self.path = path
        self.keeps = []   # (kind, name, opts)
        self.fns = []
        self.injects = []
        self.uses = []
        self.trait_injects = {}   # trait name -> [(text, origin)]
        self.impl_injects = []    # (regex, text, origin)


class UnitSpec:
    def __init__(self):
        self.name = None
        self.features = []
        self.no_default = False
        self.prelude = []
        self.mods = {}
        self.order = []
        self.includes = []
        self.properties = []
        self.verus_args = []
        self.canary = True


TAGS = re.compile(r'^\[([A-Za-z0-9_, ]+)\]\s*')


def _tags(text):
    m = TAGS.match(text)
    if m:
        return [t.strip() for t in m.group(1).split(',') if t.strip()], text[m.end():]
    return [], text


def parse_contract_file(path, unit=None, seen=None):
    unit = unit or UnitSpec()
    seen = seen or set()
    if path in seen:
        return unit
    seen.add(path)
    lines = open(path).read().split('\n')
    i = 0
    cur_mod = None
    cur_fn = None
    cur_clause = None   # (list, index) being continued

    def mod(pathstr):
        if pathstr not in unit.mods:
            unit.mods[pathstr] = ModSpec(pathstr)
            unit.order.append(pathstr)
        return unit.mods[pathstr]

    while i < len(lines):
        ln = lines[i]
        i += 1
        if ln.startswith('#') or (not ln.strip() and cur_clause is None):
            continue
        if ln.startswith('@'):
            cur_clause = None
            parts = ln.split(None, 1)
            d = parts[0]
            arg = parts[1].strip() if len(parts) > 1 else ''
            if d == '@unit':
                unit.name = unit.name or arg
            elif d == '@features':
                unit.features = [f for f in re.split(r'[,\s]+', arg) if f]
            elif d == '@no_default_features':
                unit.no_default = True
            elif d == '@properties':
                unit.properties += arg.split()
            elif d == '@verus_args':
                unit.verus_args += arg.split()
            elif d == '@include':
                parse_contract_file(os.path.join(os.path.dirname(path), arg), unit, seen)
                cur_mod = None
                cur_fn = None
            elif d in ('@trait_inject', '@impl_inject'):
                buf = []
                start = i
                while i < len(lines) and lines[i].strip() != '@end':
                    buf.append(lines[i])
                    i += 1
                if i >= len(lines):
                    raise Undecided('%s:%d: %s without @end' % (path, start, d))
                i += 1
                origin = '%s:%d' % (os.path.basename(path), start + 1)
                if d == '@trait_inject':
                    cur_mod.trait_injects.setdefault(arg, []).append(('\n'.join(buf), origin))
                else:
                    cur_mod.impl_injects.append((arg.strip().strip('/'), '\n'.join(buf), origin))
                cur_fn = None
            elif d in ('@prelude', '@inject'):
                buf = []
                start = i
                while i < len(lines) and lines[i].strip() != '@end':
                    buf.append(lines[i])
                    i += 1
                if i >= len(lines):
                    raise Undecided('%s:%d: %s without @end' % (path, start, d))
                i += 1
                blk = ('\n'.join(buf), '%s:%d' % (os.path.basename(path), start + 1))
                if d == '@prelude':
                    unit.prelude.append(blk)
                else:
                    if cur_mod is None:
                        raise Undecided('%s: @inject outside @mod' % path)
                    cur_mod.injects.append(blk)
                cur_fn = None
            elif d == '@mod':
                cur_mod = mod(arg)
                cur_fn = None
            elif d == '@use':
                cur_mod.uses.append(arg)
            elif d == '@keep':
                ps = arg.split()
                kind, name = ps[0], ps[1]
                opts = {}
                rest = ps[2:]
                if kind == 'impl':
                    name = arg[len('impl'):].strip()
                    rest = []
                for o in rest:
                    if '=' in o:
                        k, v = o.split('=', 1)
                        opts[k] = v
                    else:
                        opts[o] = True
                cur_mod.keeps.append((kind, name, opts))
                cur_fn = None
            elif d == '@fn':
                cur_fn = FnSpec(arg, '%s:%d' % (os.path.basename(path), i))
                # a later @fn with the same selector in the same @mod replaces the earlier one
                # (an including unit refines / completes the contract of an included file)
                cur_mod.fns = [f for f in cur_mod.fns if f.selector != arg]
                cur_mod.fns.append(cur_fn)
                cur_loop = None
            elif d == '@end':
                cur_fn = None
            else:
                raise Undecided('%s:%d: unknown directive %s' % (path, i, d))
            continue
        # clause lines inside @fn
        if cur_fn is None:
            if ln.strip():
                raise Undecided('%s:%d: text outside of a directive: %r' % (path, i, ln))
            continue
        st = ln.strip()
        m = re.match(r'^(ret|requires|ensures|decreases|loop|invariant|invariant_except_break|loop_ensures|at_start|at_end|after_loop|before_loop|loop_body_start|loop_body_end|at|attr|tags|as_inherent|'
                     r'external_body|no_body|loop_hint|subst|impl_match|returns|opens|debug_assert_may_fail|concrete_ret|no_panic_when|ptr_model|debug_builders|strip_nested_items|fmt_args)\b\s*(.*)$', st)
        indent = len(ln) - len(ln.lstrip())
        if m and indent <= 4 or (m and m.group(1) in ('invariant', 'invariant_except_break', 'loop_ensures', 'decreases') and indent <= 8 and cur_clause is None):
            kw, rest = m.group(1), m.group(2)
            cur_clause = None
            if kw == 'ret':
                cur_fn.ret = rest.strip()
            elif kw == 'requires':
                tg, tx = _tags(rest)
                cur_fn.requires.append([tg, tx])
                cur_clause = cur_fn.requires[-1]
                cur_fn._cur_loop = None
            elif kw == 'ensures':
                tg, tx = _tags(rest)
                cur_fn.ensures.append([tg, tx])
                cur_clause = cur_fn.ensures[-1]
                cur_fn._cur_loop = None
            elif kw == 'returns':
                cur_fn.returns = rest
            elif kw == 'opens':
                cur_fn.opens = rest
            elif kw == 'decreases':
                lp = getattr(cur_fn, '_cur_loop', None)
                if lp is not None:
                    cur_fn.loops[lp]['decreases'] = [[], rest]
                    cur_clause = cur_fn.loops[lp]['decreases']
                else:
                    cur_fn.decreases = [[], rest]
                    cur_clause = cur_fn.decreases
            elif kw == 'loop':
                n = int(rest.split()[0])
                cur_fn.loops.setdefault(n, {'invariant': [], 'decreases': None, 'ensures': [],
                                            'invariant_except_break': []})
                cur_fn._cur_loop = n
            elif kw in ('invariant', 'invariant_except_break', 'loop_ensures'):
                lp = getattr(cur_fn, '_cur_loop', None)
                if lp is None:
                    raise Undecided('%s:%d: invariant outside loop' % (path, i))
                tg, tx = _tags(rest)
                key = {'invariant': 'invariant', 'invariant_except_break': 'invariant_except_break',
                       'loop_ensures': 'ensures'}[kw]
                cur_fn.loops[lp][key].append([tg, tx])
                cur_clause = cur_fn.loops[lp][key][-1]
            elif kw in ('at_start', 'at_end', 'after_loop', 'before_loop', 'loop_body_start', 'loop_body_end'):
                n = None
                if kw not in ('at_start', 'at_end'):
                    mm = re.match(r'^(\d+)\s*(.*)$', rest)
                    if not mm:
                        raise Undecided('%s:%d: %s needs a loop ordinal' % (path, i, kw))
                    n = int(mm.group(1))
                    rest = mm.group(2)
                tg, tx = _tags(rest)
                cur_fn.ats.append([tg, tx, kw, 'pos', n])
                cur_clause = cur_fn.ats[-1]
                cur_fn._cur_loop = None
            elif kw == 'at':
                mm = re.match(r'^"((?:[^"\\]|\\.)*)"\s+(before|after|replace_stmt_end|inside_start)(?:\s+nth=(\d+))?\s*(.*)$', rest)
                if not mm:
                    raise Undecided('%s:%d: bad at-clause' % (path, i))
                tg, tx = _tags(mm.group(4))
                anchor = mm.group(1).replace('\\"', '"')
                cur_fn.ats.append([tg, tx, anchor, mm.group(2), int(mm.group(3) or 1)])
                cur_clause = cur_fn.ats[-1]
                cur_fn._cur_loop = None
            elif kw == 'attr':
                cur_fn.attrs.append(rest)
            elif kw == 'tags':
                cur_fn.tags = _tags(rest if rest.startswith('[') else '[' + rest + ']')[0]
            elif kw == 'as_inherent':
                cur_fn.as_inherent = rest.strip()
            elif kw == 'external_body':
                cur_fn.external_body = True
            elif kw == 'no_body':
                cur_fn.no_body = True
            elif kw == 'loop_hint':
                a, b = rest.split()
                cur_fn.loop_hints[int(a)] = b
            elif kw == 'impl_match':
                cur_fn.impl_match = rest.strip()
            elif kw == 'debug_assert_may_fail':
                cur_fn.may_fail.append(rest.strip().strip('"'))
            elif kw == 'concrete_ret':
                cur_fn.concrete_ret = rest.strip()
            elif kw == 'debug_builders':
                cur_fn.debug_builders = True
            elif kw == 'strip_nested_items':
                cur_fn.strip_nested = True
            elif kw == 'fmt_args':
                cur_fn.fmt_args = rest.strip()
            elif kw == 'ptr_model':
                mm = re.match(r'^(\S+)\s+\[(\S+)\]\s*:\s*(.+)$', rest)
                if not mm:
                    raise Undecided('%s:%d: bad ptr_model (want: ptr_model <array-expr> [<ElemType>] : p1 p2 ...)' % (path, i))
                cur_fn.ptr_model.append((mm.group(1), mm.group(2), mm.group(3).split()))
            elif kw == 'no_panic_when':
                tg, tx = _tags(rest)
                cur_fn.no_panic_when = [tg, tx]
                cur_clause = cur_fn.no_panic_when
            elif kw == 'subst':
                mm = re.match(r'^/((?:[^/\\]|\\.)*)/\s+/((?:[^/\\]|\\.)*)/\s+(.*)$', rest)
                if not mm:
                    raise Undecided('%s:%d: bad subst' % (path, i))
                cur_fn.subst.append((mm.group(1), mm.group(2), mm.group(3)))
            continue
        # continuation
        if cur_clause is not None:
            cur_clause[1] = (cur_clause[1] + '\n' + ln.rstrip()) if cur_clause[1] else ln.strip()
        elif st:
            raise Undecided('%s:%d: cannot parse clause line %r' % (path, i, ln))
    return unit


# --------------------------------------------------------------------------
# emission with line bookkeeping

class Out:
    def __init__(self):
        self.chunks = []
        self.line = 1
        self.meta = []   # dict(start,end,kind,tags,text,fn)
        self.fn_ranges = []  # (start,end,fn qualified name, default tags)

    def emit(self, text, meta=None):
        if not text:
            return
        n = text.count('\n')
        if meta is not None:
            m = dict(meta)
            m['start'] = self.line
            m['end'] = self.line + n - (1 if text.endswith('\n') else 0)
            self.meta.append(m)
        self.chunks.append(text)
        self.line += n

    def text(self):
        return ''.join(self.chunks)


def clean_clause(text):
    t = text.strip()
    while t.endswith(','):
        t = t[:-1].rstrip()
    return t


PUBRX = re.compile(r'\bpub\s*\(\s*(crate|super|self|in\s+[\w:]+)\s*\)')


def publicize_header(h):
    h = PUBRX.sub('pub', h)
    return h


def pub_fields(item):
    """struct with all fields made pub (R13)."""
    s = item.src
    hdr = publicize_header(norm_header(s[item.header_start:item.body_open])) if item.body_open is not None else None
    if item.body_open is not None:
        inner = s[item.body_open + 1:item.body_close]
        fields = split_top(inner, ',')
        outf = []
        for f in fields:
            f = strip_attrs_docs(f).strip()
            if not f:
                continue
            f = PUBRX.sub('pub', f)
            if not f.startswith('pub '):
                f = 'pub ' + f
            outf.append('    ' + norm_ws(f) + ',')
        if not hdr.startswith('pub '):
            hdr = 'pub ' + hdr
        return hdr + ' {\n' + '\n'.join(outf) + '\n}\n'
    # tuple or unit struct: `struct X(T, U);`
    t = publicize_header(norm_ws(s[item.header_start:item.end]))
    m = re.match(r'^(pub\s+)?struct\s+(\w+)\s*(<[^()]*>)?\s*\((.*)\)\s*(where .*)?;$', t)
    if m:
        fs = []
        for f in split_top(m.group(4), ','):
            f = strip_attrs_docs(f).strip()
            if not f:
                continue
            f = PUBRX.sub('pub', f)
            if not f.startswith('pub '):
                f = 'pub ' + f
            fs.append(f)
        return 'pub struct %s%s(%s)%s;\n' % (m.group(2), m.group(3) or '', ', '.join(fs),
                                            (' ' + m.group(5)) if m.group(5) else '')
    if not t.startswith('pub '):
        t = 'pub ' + t
    return t + '\n'


def strip_attrs_docs(t):
    out = []
    i = 0
    n = len(t)
    while i < n:
        if t[i].isspace():
            out.append(t[i])
            i += 1
            continue
        if t.startswith('//', i) or t.startswith('/*', i):
            i = rsparse.skip_comment(t, i)
            continue
        if t.startswith('#[', i):
            j = t.index('[', i)
            i = match_delim(t, j) + 1
            continue
        break
    return ''.join(out) + t[i:]


def split_top(t, sep):
    parts = []
    depth = 0
    angle = 0
    last = 0
    prev = ''
    for kind, a, b in tokens(t):
        if kind != 'punct':
            prev = ''
            continue
        c = t[a]
        if c in '([{':
            depth += 1
        elif c in ')]}':
            depth -= 1
        elif c == '<':
            angle += 1
        elif c == '>' and prev not in ('-', '='):
            angle = max(0, angle - 1)
        elif c == sep and depth == 0 and angle == 0:
            parts.append(t[last:a])
            last = a + 1
        prev = c
    parts.append(t[last:])
    return parts


def norm_header(h):
    return norm_ws(strip_comments(h))


def strip_comments(t):
    out = []
    for kind, a, b in tokens(t, keep_ws=True):
        if kind == 'comment':
            out.append(' ')
        else:
            out.append(t[a:b])
    return ''.join(out)


# --------------------------------------------------------------------------
# function assembly

def split_signature(sig):
    """sig: text from `fn`-qualifiers to just before the body `{` (or the `;`).
    Returns (before_ret, ret_type or None, where_clause or '')."""
    sig = norm_header(sig)
    # find params paren: first '(' after `fn name<generics>`
    m = re.search(r'\bfn\s+\w+', sig)
    i = m.end()
    # skip generics
    j = i
    while j < len(sig) and sig[j].isspace():
        j += 1
    if j < len(sig) and sig[j] == '<':
        d = 0
        k = j
        while k < len(sig):
            c = sig[k]
            if c == '<':
                d += 1
            elif c == '>' and sig[k - 1] not in '-=':
                d -= 1
                if d == 0:
                    break
            k += 1
        j = k + 1
    po = sig.index('(', j)
    pc = match_delim(sig, po)
    rest = sig[pc + 1:].strip()
    before = sig[:pc + 1]
    ret = None
    where = ''
    wm = None
    d = 0
    for mm in re.finditer(r'[<>()\[\]]|\bwhere\b', rest):
        t = mm.group(0)
        if t in '<([':
            d += 1
        elif t in ')]' or (t == '>' and rest[mm.start() - 1] not in '-='):
            d -= 1
        elif t == 'where' and d == 0:
            wm = mm.start()
            break
    if wm is not None:
        where = rest[wm:].strip()
        rest = rest[:wm].strip()
    if rest.startswith('->'):
        ret = rest[2:].strip()
    elif rest:
        raise Undecided('unexpected signature tail %r' % rest)
    return before, ret, where


def find_stmt_anchor(body, anchor, nth):
    """Return (start, end) of the nth occurrence of `anchor` in body, comparing
    modulo whitespace.  The anchor is plain text."""
    # build regex: tokens separated by optional whitespace
    toks = [re.escape(t) for t in re.findall(r'\w+|[^\w\s]', anchor)]
    rx = re.compile(r'\s*'.join(toks))
    hits = []
    for kind, a, b in tokens(body):
        m = rx.match(body, a)
        if m:
            hits.append((m.start(), m.end()))
    # de-duplicate overlapping starts (tokens() yields each token start once)
    if len(hits) >= nth:
        return hits[nth - 1]
    if hits:
        return None      # fewer exact occurrences than asked for: the structure changed
    return fuzzy_stmt_anchor(body, anchor, nth)


def _stmt_spans(body):
    """(start, end) of every `;`-terminated statement and every block-opening header at any depth."""
    spans = []
    starts = [1]
    for kind, a, b in tokens(body):
        if kind != 'punct':
            continue
        c = body[a]
        if c == ';':
            spans.append((starts[-1], b))
            starts[-1] = b
        elif c == '{':
            if body[starts[-1]:a].strip():
                spans.append((starts[-1], a))
            starts.append(b)
        elif c == '}':
            if len(starts) > 1:
                if body[starts[-1]:a].strip():
                    spans.append((starts[-1], a))
                starts.pop()
            starts[-1] = b
    return spans


def fuzzy_stmt_anchor(body, anchor, nth):
    """The anchored statement was edited: pick the statement that is clearly the most similar one (token-wise).
    Used only when there is no exact occurrence; returns None unless there is a unique good candidate."""
    import difflib
    if nth != 1:
        return None
    atoks = re.findall(r'\w+|[^\w\s]', anchor)
    if len(atoks) < 4:
        return None
    scored = []
    for a, e in _stmt_spans(body):
        # skip leading whitespace
        t = body[a:e]
        a2 = a + (len(t) - len(t.lstrip()))
        toks = re.findall(r'\w+|[^\w\s]', body[a2:e])
        if not toks:
            continue
        r = difflib.SequenceMatcher(None, atoks, toks[:len(atoks) + 6]).ratio()
        scored.append((r, a2, e))
    scored.sort(reverse=True)
    if not scored or scored[0][0] < 0.72:
        return None
    if len(scored) > 1 and scored[0][0] - scored[1][0] < 0.08:
        return None
    FUZZY_LOG.append('anchor "%s" matched approximately (similarity %.2f)' % (anchor[:60], scored[0][0]))
    return (scored[0][1], scored[0][2])


FUZZY_LOG = []


def stmt_bounds(body, a, e):
    """Expand [a,e) to the enclosing statement: back to just after the previous
    `;`, `{` or `}` at the same depth, forward to just after the next `;` at
    the same depth (or the end of a block-like statement)."""
    # backward
    depth = 0
    toks = list(tokens(body, 0, a))
    start = 0
    for kind, x, y in reversed(toks):
        if kind != 'punct':
            continue
        c = body[x]
        if c in ')]}':
            if c == '}' and depth == 0:
                start = y
                break
            depth += 1
        elif c in '([{':
            if depth == 0:
                start = y
                break
            depth -= 1
        elif c == ';' and depth == 0:
            start = y
            break
    # forward
    depth = 0
    end = len(body)
    if body[a:e].rstrip().endswith(';'):
        return start, e
    for kind, x, y in tokens(body, e):
        if kind != 'punct':
            continue
        c = body[x]
        if c in '([{':
            depth += 1
        elif c in ')]}':
            if depth == 0:
                end = x
                break
            depth -= 1
        elif c == ';' and depth == 0:
            end = y
            break
    return start, end


_INV_CACHE = {}


def invariant_conditions():
    """Normalised conditions of every `invariant!(…)` in the current sources (used to refuse treating one as may-fail)."""
    key = REPO
    if key in _INV_CACHE:
        return _INV_CACHE[key]
    conds = set()
    for d, _, fs in os.walk(os.path.join(REPO, 'ffuzzy', 'src')):
        for f in fs:
            if not f.endswith('.rs'):
                continue
            t = open(os.path.join(d, f), errors='replace').read()
            for m in re.finditer(r'\binvariant!\s*\(', t):
                try:
                    e = match_delim(t, m.end() - 1)
                except rsparse.ScanError:
                    continue
                conds.add(norm_ws(t[m.end():e]))
    _INV_CACHE[key] = conds
    return conds


def tail_expr_start(body):
    """Position of the tail expression of a fn body `{ … }` (just after the last
    top-level `;` or block end), or of the closing brace if there is none."""
    assert body[0] == '{'
    close = match_delim(body, 0)
    depth = 0
    last = 1
    prev_block_end = None
    for kind, a, b in tokens(body, 1, close):
        if kind != 'punct':
            continue
        c = body[a]
        if c in '([{':
            depth += 1
        elif c in ')]}':
            depth -= 1
        elif c == ';' and depth == 0:
            last = b
    tail = body[last:close].strip()
    if not tail:
        return close
    # a trailing block-like statement (if/while/match/loop/for without `;`) is not a value we need to stay ahead of,
    # but inserting before it would be wrong for proofs about its effect: insert before `}` then.
    if re.match(r'^(if|while|loop|for|match)\b', tail) or tail.startswith('{'):
        return close
    return last


class FnAsm:
    def __init__(self, item, spec, qual, kind='fn'):
        self.item = item
        self.spec = spec
        self.qual = qual
        self.log = []

    def build(self, in_trait_impl=False, in_trait_decl=False):
        """Returns list of (text, meta) segments."""
        it, sp = self.item, self.spec
        s = it.src
        segs = []
        has_body = it.body_open is not None
        sig = s[it.header_start:it.body_open] if has_body else s[it.header_start:it.end - 1]
        sig = publicize_header(sig)
        before, ret, where = split_signature(sig)
        if sp and sp.concrete_ret:
            # R14: an opaque return type `impl '_ + Traits` is replaced by the concrete type T<'_> when the whole body is
            # the constructor expression `T(...)` / `T {...}` (return-position impl Trait only hides the type from callers)
            tn = re.match(r'^\w+', sp.concrete_ret).group(0)
            bt = norm_ws(s[it.body_open + 1:it.body_close]) if has_body else ''
            if not (ret or '').startswith('impl') or not re.match(r'^%s\s*[({]' % re.escape(tn), bt) or not bt.endswith((')', '}')):
                raise Undecided('%s: concrete_ret %s: return type is not `impl …` or the body is not a single %s constructor'
                                % (self.qual, sp.concrete_ret, tn))
            self.log.append('R14: return type %s -> %s' % (norm_ws(ret), sp.concrete_ret))
            ret = sp.concrete_ret
        if in_trait_impl or in_trait_decl:
            before = re.sub(r'^\s*pub\s+', '', before)
        else:
            if not re.match(r'^\s*pub\b', before):
                before = 'pub ' + before
        if sp and sp.as_inherent:
            eg = getattr(self, 'extra_generics', [])
            before = re.sub(r'\bfn\s+\w+', 'fn ' + sp.as_inherent + (('<' + ', '.join(eg) + '>') if eg else ''), before, count=1)
            if not re.match(r'^\s*pub\b', before):
                before = 'pub ' + before
        # R11-like declared substitutions on the signature are done on whole text below
        # R11: `x: impl AsRef<T>` + `let x = x.as_ref();`  ->  `x: &T` (the crate's AsRef impls are the identity / a field
        # projection; assemble() checks every `fn as_ref` body of the crate to be exactly that)
        self.r11 = []
        for m_ in list(re.finditer(r'(\b[A-Za-z_]\w*)\s*:\s*impl\s+AsRef\s*<', before)):
            nm = m_.group(1)
            lt = before.index('<', m_.end() - 1)
            d_ = 0
            k_ = lt
            while k_ < len(before):
                if before[k_] == '<':
                    d_ += 1
                elif before[k_] == '>' and before[k_ - 1] not in '-=':
                    d_ -= 1
                    if d_ == 0:
                        break
                k_ += 1
            ty_ = before[lt + 1:k_].strip()
            self.r11.append((nm, before[m_.start():k_ + 1], '%s: &%s' % (nm, ty_)))
        for nm, old_, new_ in self.r11:
            before = before.replace(old_, new_)
            self.log.append('R11: %s -> %s' % (norm_ws(old_), norm_ws(new_)))
        head = before
        if ret is not None:
            rn = (sp.ret if sp and sp.ret else '__ret')
            head += ' -> (%s: %s)' % (rn, ret)
        fnmeta = {'fn': self.qual}
        for a in (sp.attrs if sp else []):
            segs.append((a + '\n', None))
        if sp and sp.external_body:
            segs.append(('#[verifier::external_body]\n', {'kind': 'assumption', 'fn': self.qual,
                                                        'text': 'external_body', 'tags': []}))
        segs.append((head + '\n', {'kind': 'signature', 'fn': self.qual, 'text': norm_ws(head), 'tags': []}))
        if getattr(self, 'extra_where', None):
            where = (where.rstrip().rstrip(',') + ', ' if where else 'where ') + ', '.join(self.extra_where)
        if where:
            w = where.rstrip()
            if not w.endswith(','):
                w += ','
            segs.append(('    ' + w + '\n', None))
        if sp:
            for kw, lst in (('requires', sp.requires), ('ensures', sp.ensures)):
                if lst:
                    segs.append(('    %s\n' % kw, None))
                    for tg, tx in lst:
                        segs.append(('        ' + clean_clause(tx) + ',\n',
                                     {'kind': kw, 'fn': self.qual, 'tags': tg, 'text': clean_clause(tx)}))
            if sp.returns:
                segs.append(('    returns %s,\n' % clean_clause(sp.returns), {'kind': 'ensures', 'fn': self.qual, 'tags': sp.tags, 'text': 'returns ' + sp.returns}))
            if sp.opens:
                segs.append(('    %s\n' % sp.opens, None))
            if sp.decreases:
                segs.append(('    decreases %s,\n' % clean_clause(sp.decreases[1]),
                             {'kind': 'decreases', 'fn': self.qual, 'tags': [], 'text': clean_clause(sp.decreases[1])}))
        if not has_body or (sp and sp.no_body):
            segs.append((';\n', None))
            return segs
        if sp and sp.external_body:
            # trusted body: not verified, so it is not emitted either (keeps the unit free of its dependencies)
            self.log.append('external_body: body replaced by unimplemented!() (TRUSTED, see contracts/TRUSTED.json)')
            segs.append(('{ unimplemented!() }\n', None))
            return segs
        body = s[it.body_open:it.body_close + 1]
        opts = {'loop_hints': sp.loop_hints if sp else {}, 'may_fail': sp.may_fail if sp else []}
        if sp and sp.no_panic_when:
            # intended panics (assert!/panic!/unreachable!) must be unreachable whenever the documented domain holds at entry
            opts['panic_call'] = 'verif_panic_outside(Ghost(__verif_dom))'
        if sp and sp.may_fail:
            inv = invariant_conditions()
            for mf in sp.may_fail:
                if any(norm_ws(mf) in c for c in inv):
                    raise Undecided('%s: debug_assert_may_fail "%s" matches an invariant!() condition of the sources '
                                    '(invariant! becomes assert_unchecked in unsafe builds and must be proved)' % (self.qual, mf))
        if sp and sp.strip_nested:
            try:
                body, nlog = rules.r19_strip_nested_items(body)
            except (rules.RuleError, rsparse.ScanError) as e:
                raise Undecided('%s: %s' % (self.qual, e))
            self.log += nlog
        n_loops_before = len(rules.loop_headers(body))
        try:
            body, log = rules.apply_all(body, opts)
        except (rules.RuleError, rsparse.ScanError) as e:
            raise Undecided('%s: %s' % (self.qual, e))
        self.log += log
        for nm, old_, new_ in getattr(self, 'r11', []):
            body, c1 = re.subn(r'let\s+%s\s*=\s*%s\.as_ref\(\)\s*;' % (re.escape(nm), re.escape(nm)), '', body)
            body, c2 = re.subn(r'\b%s\.as_ref\(\)' % re.escape(nm), nm, body)
            self.log.append('R11: dropped %d `let %s = %s.as_ref();`, replaced %d inline `%s.as_ref()`' % (c1, nm, nm, c2, nm))
        if sp:
            if sp.fmt_args:
                try:
                    body, flog = rules.r20_write_fmt(body, sp.fmt_args)
                except (rules.RuleError, rsparse.ScanError, ValueError) as e:
                    raise Undecided('%s: %s' % (self.qual, e))
                self.log += flog
            if sp.debug_builders:
                try:
                    body, dlog = rules.r18_debug_chain(body)
                except (rules.RuleError, rsparse.ScanError) as e:
                    raise Undecided('%s: %s' % (self.qual, e))
                self.log += dlog
            for arr, elem, names in sp.ptr_model:
                try:
                    body, plog = rules.ptr_model(body, arr, elem, names)
                except rules.RuleError as e:
                    raise Undecided('%s: %s' % (self.qual, e))
                self.log += plog
            for rx, rep, reason in sp.subst:
                body2, cnt = re.subn(rx, rep, body)
                if cnt == 0:
                    raise Undecided('%s: declared substitution /%s/ no longer matches' % (self.qual, rx))
                self.log.append('SUBST(%s): /%s/ -> /%s/ x%d' % (reason, rx, rep, cnt))
                body = body2
        if sp and sp.no_panic_when:
            body = '{ let ghost __verif_dom: bool = %s;\n' % clean_clause(sp.no_panic_when[1]) + body[1:]
            self.log.append('no_panic_when: assert!/panic! sites require the domain condition to be false')
        hdrs = rules.loop_headers(body)   # ordinals refer to the rewritten body (R7/R8 add loops in textual order)
        inserts = []   # (pos, order, text, meta)
        if sp:
            for n, ls in sorted(sp.loops.items()):
                if n > len(hdrs):
                    raise Undecided('%s: contract names loop %d but the function has %d loops' % (self.qual, n, len(hdrs)))
                kw, a, bo = hdrs[n - 1]
                k = 0
                for key, word in (('invariant_except_break', 'invariant_except_break'), ('invariant', 'invariant'),
                                  ('ensures', 'ensures')):
                    lst = ls[key]
                    if lst:
                        inserts.append((bo, k, '\n    %s\n' % word, None))
                        k += 1
                        for tg, tx in lst:
                            inserts.append((bo, k, '        ' + clean_clause(tx) + ',\n',
                                            {'kind': 'loop-' + key, 'fn': self.qual, 'loop': n, 'tags': tg,
                                             'text': clean_clause(tx)}))
                            k += 1
                if ls['decreases']:
                    inserts.append((bo, k, '    decreases %s,\n' % clean_clause(ls['decreases'][1]),
                                    {'kind': 'loop-decreases', 'fn': self.qual, 'loop': n, 'tags': [],
                                     'text': clean_clause(ls['decreases'][1])}))
            loops_without = [i + 1 for i in range(len(hdrs)) if (i + 1) not in sp.loops]
            for tg, tx, anchor, where_, nth in sp.ats:
                if where_ == 'pos':
                    meta = {'kind': 'hint', 'fn': self.qual, 'tags': tg, 'text': norm_ws(tx)[:200], 'anchor': '%s %s' % (anchor, nth or '')}
                    if anchor == 'at_start':
                        pos = 1
                    elif anchor == 'at_end':
                        pos = tail_expr_start(body)
                    else:
                        if nth > len(hdrs):
                            raise Undecided('%s: %s %d but the function has %d loops' % (self.qual, anchor, nth, len(hdrs)))
                        kw_, a_, bo_ = hdrs[nth - 1]
                        bc_ = match_delim(body, bo_)
                        pos = {'before_loop': a_, 'after_loop': bc_ + 1, 'loop_body_start': bo_ + 1, 'loop_body_end': bc_}[anchor]
                    inserts.append((pos, 5, '\n' + tx.rstrip() + '\n', meta))
                    continue
                nfz = len(FUZZY_LOG)
                hit = find_stmt_anchor(body, anchor, nth)
                if len(FUZZY_LOG) > nfz:
                    self.log.append('ANCHOR: ' + FUZZY_LOG[-1])
                if hit is None:
                    raise Undecided('%s: anchor "%s" (nth=%d) not found in the current source' % (self.qual, anchor, nth))
                sa, se = stmt_bounds(body, hit[0], hit[1])
                meta = {'kind': 'hint', 'fn': self.qual, 'tags': tg, 'text': norm_ws(tx)[:200], 'anchor': anchor}
                if where_ == 'before':
                    inserts.append((sa, 0, '\n' + tx.rstrip() + '\n', meta))
                elif where_ == 'after':
                    inserts.append((se, 0, '\n' + tx.rstrip() + '\n', meta))
                elif where_ == 'inside_start':
                    # anchor names a block opener: insert right after the next '{' following the anchor
                    j = body.index('{', hit[1] - 1) if body[hit[1] - 1] != '{' else hit[1] - 1
                    inserts.append((j + 1, 0, '\n' + tx.rstrip() + '\n', meta))
                else:
                    raise Undecided('unsupported at-position ' + where_)
        # function-start insertion (proof preamble) uses anchor "" — handled by `at "{" inside_start`
        inserts.sort(key=lambda t: (t[0], t[1]))
        last = 0
        bodymeta = {'kind': 'body', 'fn': self.qual, 'tags': (sp.tags if sp else []), 'text': ''}
        for pos, _, text, meta in inserts:
            if pos > last:
                segs.append((body[last:pos], bodymeta))
                last = pos
            segs.append((text, meta))
        segs.append((body[last:] + '\n', bodymeta))
        return segs


# --------------------------------------------------------------------------
# item selection

def find_mod(items, path):
    cur = items
    node = None
    for p in path.split('::'):
        nxt = [it for it in cur if it.kind == 'mod' and it.name == p]
        if not nxt:
            raise Undecided('module %s not found in the expanded crate' % path)
        node = nxt[0]
        cur = node.children or []
    return node


def sel_matches_impl(sel, impl_item):
    g, tr, ty, wh = impl_header_info(impl_item.header)
    sel = sel.strip()
    if sel.startswith('<') and sel.endswith('>') and ' for ' in sel:
        want = re.sub(r'\s+', '', sel[1:-1])
        have = re.sub(r'\s+', '', '%s for %s' % (tr, ty)) if tr else None
        return have == want
    if tr is not None:
        return False
    base = re.match(r'^[\w:]+', ty)
    return base is not None and base.group(0).split('::')[-1] == sel


def collect_unit(items, unit):
    """Resolve every directive of the unit to items.  Returns a plan:
    {mod_path: [ (item, action, payload) in source order ]}"""
    plan = {}
    for mp in unit.order:
        ms = unit.mods[mp]
        node = find_mod(items, mp)
        ch = node.children
        entries = {}   # id(item) -> dict

        def entry(it):
            return entries.setdefault(id(it), {'item': it, 'whole': False, 'fns': [], 'consts': [], 'opts': {}})
        for kind, name, opts in ms.keeps:
            if kind == 'impl':
                rx = re.compile(name.strip('/'))
                hits = [it for it in ch if it.kind == 'impl' and rx.search(norm_header(it.header))]
                if not hits:
                    raise Undecided('%s: no impl matches /%s/' % (mp, name))
                for it in hits:
                    e = entry(it)
                    e['whole'] = True
                    e['opts'].update(opts)
                continue
            if kind == 'implconst':
                ty, cn = name.split('::')
                hits = []
                for it in ch:
                    if it.kind == 'impl' and sel_matches_impl(ty, it):
                        for c in it.children:
                            if c.kind == 'const' and c.name == cn:
                                hits.append((it, c))
                if len(hits) != 1:
                    raise Undecided('%s: implconst %s: %d matches' % (mp, name, len(hits)))
                entry(hits[0][0])['consts'].append((hits[0][1], opts))
                continue
            if kind == 'traitconst':
                ty, cn = name.split('::')
                hits = []
                for it in ch:
                    if it.kind == 'trait' and it.name == ty:
                        for c in it.children:
                            if c.kind == 'const' and c.name == cn:
                                hits.append((it, c))
                if len(hits) != 1:
                    raise Undecided('%s: traitconst %s: %d matches' % (mp, name, len(hits)))
                entry(hits[0][0])['consts'].append((hits[0][1], opts))
                continue
            hits = [it for it in ch if it.kind == kind and it.name == name]
            if len(hits) != 1:
                raise Undecided('%s: %s %s: %d matches in the current source' % (mp, kind, name, len(hits)))
            e = entry(hits[0])
            e['whole'] = True
            e['opts'].update(opts)
        for rxs, text, origin in ms.impl_injects:
            rx = re.compile(rxs)
            hits = [it for it in ch if it.kind == 'impl' and rx.search(norm_header(it.header))]
            if not hits:
                raise Undecided('%s: @impl_inject /%s/ matches no impl in the current source' % (mp, rxs))
            for it in hits:
                entry(it).setdefault('inject', []).append((text, origin))
        for tn, blocks in ms.trait_injects.items():
            hits = [it for it in ch if it.kind == 'trait' and it.name == tn]
            if len(hits) != 1:
                raise Undecided('%s: @trait_inject %s: %d matches' % (mp, tn, len(hits)))
            entry(hits[0]).setdefault('inject', []).extend(blocks)
        for fs in ms.fns:
            sel = fs.selector
            if sel.startswith('trait '):
                tn, fnn = sel[6:].strip().rsplit('::', 1)
                hits = []
                for it in ch:
                    if it.kind == 'trait' and it.name == tn:
                        for c in it.children:
                            if c.kind == 'fn' and c.name == fnn:
                                hits.append((it, c))
            elif '::' in sel and not sel.startswith('::'):
                # split at last '::' outside <>
                d = 0
                cut = None
                for k in range(len(sel) - 1):
                    if sel[k] == '<':
                        d += 1
                    elif sel[k] == '>':
                        d -= 1
                    elif sel.startswith('::', k) and d == 0:
                        cut = k
                tsel, fnn = sel[:cut], sel[cut + 2:]
                hits = []
                for it in ch:
                    if it.kind == 'impl' and sel_matches_impl(tsel, it):
                        if fs.impl_match and not re.search(fs.impl_match, norm_header(it.header)):
                            continue
                        for c in it.children:
                            if c.kind == 'fn' and c.name == fnn:
                                hits.append((it, c))
            else:
                hits = [(None, it) for it in ch if it.kind == 'fn' and it.name == sel]
            if len(hits) != 1:
                raise Undecided('%s: @fn %s (%s): %d matches in the current source' % (mp, sel, fs.line, len(hits)))
            par, f = hits[0]
            if par is None:
                e = entry(f)
                e['fns'].append((f, fs))
            else:
                entry(par)['fns'].append((f, fs))
        ordered = sorted(entries.values(), key=lambda e: e['item'].start)
        plan[mp] = ordered
    return plan


DERIVABLE = {'Clone': '::core::clone::Clone', 'Copy': '::core::marker::Copy',
             'PartialEq': '::core::cmp::PartialEq', 'Eq': '::core::cmp::Eq',
             'Debug': '::core::fmt::Debug'}


def check_derives(modnode, tyname, derives):
    for d in derives:
        full = DERIVABLE.get(d)
        if not full:
            raise Undecided('derive %s not supported' % d)
        ok = False
        for it in modnode.children:
            if it.kind == 'impl' and '#[automatically_derived]' in it.src[it.start:it.header_start]:
                g, tr, ty, wh = impl_header_info(it.header)
                if tr == full and re.match(r'^%s\b' % re.escape(tyname), ty):
                    ok = True
        if not ok:
            raise Undecided('type %s no longer derives %s in the current source' % (tyname, d))


def use_lines(modnode, modpath, emitted_paths, emitted_mods):
    """Re-emit the `use` items of a module, one path per line, keeping those whose
    target is still present in the pruned crate or lives in core/alloc/std."""
    out = []
    for it in modnode.children:
        if it.kind != 'use':
            continue
        t = norm_header(it.src[it.header_start:it.end])
        t = re.sub(r'^pub(\s*\([^)]*\))?\s+', '', t)
        t = t[len('use'):].strip().rstrip(';').strip()
        for path, alias in expand_use_tree(t):
            segs = path.split('::')
            if segs[0] in ('core', 'std', 'alloc') or (segs[0] == '' and len(segs) > 1 and segs[1] in ('core', 'std', 'alloc')):
                out.append('use %s%s;' % (path, (' as ' + alias) if alias else ''))
                continue
            if segs[0] == 'crate':
                absx = segs[1:]
            elif segs[0] == 'super':
                base = modpath.split('::')
                k = 0
                while k < len(segs) and segs[k] == 'super':
                    base = base[:-1]
                    k += 1
                absx = base + segs[k:]
            elif segs[0] == 'self':
                absx = modpath.split('::') + segs[1:]
            else:
                # relative to current module if it names a kept child, else external crate
                cand = modpath.split('::') + segs
                if '::'.join(cand) in emitted_paths or '::'.join(cand) in emitted_mods:
                    absx = cand
                else:
                    continue
            if absx and absx[-1] == '*':
                tgt = '::'.join(absx[:-1])
                if tgt in emitted_mods or tgt in emitted_paths:
                    out.append('use crate::%s::*;' % tgt)
                continue
            tgt = '::'.join(absx)
            if tgt in emitted_paths or tgt in emitted_mods:
                out.append('use crate::%s%s;' % (tgt, (' as ' + alias) if alias else ''))
    return out


def expand_use_tree(t):
    """`a::{b, c::{d, e as f}, g::*}` -> [(a::b,None),(a::c::d,None),(a::c::e,'f'),(a::g::*,None)]"""
    t = t.strip()
    m = re.match(r'^(.*?)\{(.*)\}$', t, re.S)
    if m and match_brace_simple(t, t.index('{')) == len(t) - 1:
        prefix = m.group(1)
        res = []
        for part in split_top(m.group(2), ','):
            part = part.strip()
            if not part:
                continue
            for p, a in expand_use_tree(part):
                if p == 'self':
                    res.append((prefix.rstrip(':'), a))
                else:
                    res.append((prefix + p, a))
        return res
    m = re.match(r'^(.*?)\s+as\s+(\w+)$', t)
    if m:
        return [(re.sub(r'\s+', '', m.group(1)), m.group(2))]
    return [(re.sub(r'\s+', '', t), None)]


def match_brace_simple(t, i):
    d = 0
    for k in range(i, len(t)):
        if t[k] == '{':
            d += 1
        elif t[k] == '}':
            d -= 1
            if d == 0:
                return k
    return -1


PRELUDE_HELPERS = '''
#[verifier::external_body]
pub fn verif_panic() -> !
{ panic!() }

#[verifier::external_body]
pub fn verif_debug_panic() -> !
    requires false,
{ panic!() }

#[verifier::external_body]
pub fn verif_nondet_bool() -> bool
{ true }

/// an intended panic in a function that declares `no_panic_when D`: reaching it is only allowed when D was false at entry
#[verifier::external_body]
pub fn verif_panic_outside(dom: Ghost<bool>) -> !
    requires !dom@,
{ panic!() }
'''


PTR_HELPER = '''
/// R17 (pointer-into-one-array model, TRUSTED ptr_index_model): `p.add(n)` for a raw pointer p derived from
/// `arr.as_mut_ptr()`, with p modelled as its element index.  Safety condition of `<*mut T>::add`: the result stays inside
/// the allocation or one past its end.
pub fn verif_ptr_add(p: usize, n: usize, len: usize) -> (r: usize)
    requires p + n <= len,
    ensures r == p + n,
{ p + n }
'''


DEGRADE = [True]
DETACH_REASONS = {}


def check_as_ref_impls(items):
    """R11 side condition: every `fn as_ref` of the crate is `self` or `&self.norm_hash`."""
    def walk(its):
        for it in its:
            if it.kind == 'impl' and it.children:
                g, tr, ty, wh = impl_header_info(it.header)
                if tr and tr.startswith('AsRef<'):
                    for c in it.children:
                        if c.kind == 'fn' and c.name == 'as_ref':
                            b = norm_ws(c.src[c.body_open:c.body_close + 1])
                            if b not in ('{ self }', '{ &self.norm_hash }'):
                                raise Undecided('R11 side condition: AsRef impl for %s is not the identity/field projection: %s' % (ty, b))
            if it.kind == 'mod' and it.children:
                walk(it.children)
    walk(items)


EXPECTED_SEALED = sorted([
    ('SealedBlockHashSize', 'BlockHashSize<{ block_hash::FULL_SIZE }>'),
    ('SealedBlockHashSize', 'BlockHashSize<{ block_hash::HALF_SIZE }>'),
    ('SealedBlockHashSizes', 'BlockHashSizes<{ block_hash::FULL_SIZE }, { block_hash::FULL_SIZE }>'),
    ('SealedBlockHashSizes', 'BlockHashSizes<{ block_hash::FULL_SIZE }, { block_hash::HALF_SIZE }>'),
    ('SealedReconstructionBlockSize', 'ReconstructionBlockSize<{ block_hash::FULL_SIZE }, { block_hash::FULL_SIZE / 4 }>'),
    ('SealedReconstructionBlockSize', 'ReconstructionBlockSize<{ block_hash::HALF_SIZE }, { block_hash::HALF_SIZE / 4 }>'),
])


def check_sealed_impls(items):
    """Side condition of the `sizes_ok` / `dual_sizes_ok` preconditions used throughout the contracts: the sealed size traits
    admit exactly S1 = FULL_SIZE, S2 in {FULL_SIZE, HALF_SIZE}, (SZ_BH, SZ_RLE) in {(FULL, FULL/4), (HALF, HALF/4)}
    (FULL_SIZE = 64, HALF_SIZE = 32: Kani harness axiom_block_hash_consts).  Checked on every run against the impl list
    of the current sources; any other impl makes every unit UNDECIDED."""
    found = []

    def walk(its):
        for it in its:
            if it.kind == 'impl':
                g, tr, ty, wh = impl_header_info(it.header)
                if tr and tr.split('::')[-1].startswith('Sealed'):
                    found.append((tr.split('::')[-1], norm_ws(ty)))
            if it.kind == 'mod' and it.children:
                walk(it.children)
    walk(items)
    if sorted(found) != EXPECTED_SEALED:
        raise Undecided('side condition of sizes_ok: the sealed size-trait impls of the sources are %r, expected %r' % (sorted(found), EXPECTED_SEALED))


def assemble(unit, src, detach=None):
    items = parse_items(src, 0, len(src))
    plan = collect_unit(items, unit)
    # which paths are emitted (for `use` filtering)
    emitted_paths = set()
    emitted_mods = set()
    for mp, entries in plan.items():
        segs = mp.split('::')
        for k in range(1, len(segs) + 1):
            emitted_mods.add('::'.join(segs[:k]))
        for e in entries:
            it = e['item']
            if it.name and it.kind != 'impl':
                emitted_paths.add(mp + '::' + it.name)
    for mp in unit.order:
        for blk, _ in unit.mods[mp].injects:
            for m in re.finditer(r'\bpub\s+(?:open\s+|closed\s+|uninterp\s+)?(?:spec|proof|exec)?\s*(?:fn|const|struct|enum|trait|type)\s+(\w+)', blk):
                emitted_paths.add(mp + '::' + m.group(1))
    check_as_ref_impls(items)
    check_sealed_impls(items)
    out = Out()
    log = []
    detached = []
    detach_reasons = DETACH_REASONS
    out.emit('// GENERATED by tools/extract.py from the rustc-expanded working tree of /repo.\n'
             '// unit: %s   features: %s\n' % (unit.name, ','.join(unit.features) or '(default)'))
    out.emit('#![allow(unused_imports, dead_code, unused_variables, unused_mut, unused_parens, unused_braces, non_snake_case, unused_assignments)]\n')
    out.emit('extern crate alloc;\nuse vstd::prelude::*;\n\nverus! {\n\n')
    out.emit('pub mod vspec {\n#[allow(unused_imports)] use vstd::prelude::*;\n#[allow(unused_imports)] use super::*;\n')
    out.emit(PRELUDE_HELPERS, {'kind': 'assumption', 'fn': 'vspec::verif_panic', 'tags': [],
                               'text': 'external_body verif_panic/verif_debug_panic (intended / forbidden panic)'})
    if any(fs.ptr_model for ms in unit.mods.values() for fs in ms.fns):
        out.emit(PTR_HELPER, {'kind': 'assumption', 'fn': 'vspec::verif_ptr_add', 'tags': [], 'text': 'R17 pointer-as-index model'})
    for blk, origin in unit.prelude:
        out.emit('// ---- prelude from %s\n' % origin)
        out.emit(blk + '\n', {'kind': 'spec', 'fn': 'vspec', 'tags': [], 'text': origin})
    out.emit('} // mod vspec\n\n')

    # build module tree
    tree = {}
    for mp in unit.order:
        node = tree
        for seg in mp.split('::'):
            node = node.setdefault(seg, {})

    cur_mod_path = ['']

    def emit_mod(node, path):
        for name, sub in node.items():
            p = (path + '::' + name) if path else name
            cur_mod_path[0] = p
            out.emit('pub mod %s {\n' % name)
            out.emit('#[allow(unused_imports)] use vstd::prelude::*;\n#[allow(unused_imports)] use crate::vspec::*;\n')
            modnode = find_mod(items, p)
            for u in use_lines(modnode, p, emitted_paths, emitted_mods):
                out.emit('#[allow(unused_imports)] ' + u + '\n')
            if p in unit.mods:
                for u in unit.mods[p].uses:
                    out.emit('#[allow(unused_imports)] use ' + u + ';\n')
                for e in plan[p]:
                    emit_entry(e, p, modnode)
                for blk, origin in unit.mods[p].injects:
                    out.emit('// ---- injected from %s\n' % origin)
                    out.emit(blk + '\n', {'kind': 'spec', 'fn': p, 'tags': [], 'text': origin})
            emit_mod(sub, p)
            out.emit('} // mod %s\n\n' % name)

    detach = set(detach or ())

    def emit_fn(f, fs, qual, in_trait_impl=False, in_trait_decl=False, extra_generics=None, assoc=None, extra_where=None, self_ty=None):
        import copy
        detached_reason = None
        if fs is not None and qual in detach and not fs.external_body:
            fs = copy.copy(fs)
            fs.external_body = True
            detached_reason = detach_reasons.get(qual, 'body could not be attached to its contract')
        asm = FnAsm(f, fs, qual)
        asm.extra_generics = extra_generics or []
        asm.extra_where = extra_where or []
        start = out.line
        try:
            segs = asm.build(in_trait_impl, in_trait_decl)
        except Undecided as e:
            if fs is None or fs.external_body or not DEGRADE[0]:
                raise
            # graceful degradation: this function's body no longer fits its contract file (lost anchor / loop / subst).
            # Keep its CONTRACT for its callers (as if external) and report the function as undecided.
            fs = copy.copy(fs)
            fs.external_body = True
            detached_reason = str(e)
            asm = FnAsm(f, fs, qual)
            asm.extra_generics = extra_generics or []
            asm.extra_where = extra_where or []
            segs = asm.build(in_trait_impl, in_trait_decl)
        if detached_reason:
            detached.append({'fn': qual, 'reason': detached_reason[:400], 'tags': sorted(set((fs.tags or []) + [t for tg, _ in fs.ensures for t in tg]))})
        for text, meta in segs:
            if detached_reason and meta is not None and meta.get('kind') == 'assumption':
                meta = dict(meta)
                meta['kind'] = 'detached'
            if detached_reason and text.strip() == '#[verifier::external_body]':
                text = '#[verifier::external_body] /*DETACHED*/\n'
            if assoc and meta is not None and meta.get('kind') in ('signature', 'body'):
                # a trait-impl method emitted as an inherent method: `Self::Assoc` no longer resolves; substitute its definition
                for an, at in assoc.items():
                    text = re.sub(r'\bSelf::%s\b' % re.escape(an), at, text)
            if self_ty and meta is not None and meta.get('kind') in ('signature', 'body'):
                # a method of a trait impl on a FOREIGN type emitted as a free function: `Self` is that type
                text = re.sub(r'\bSelf\b', self_ty, text)
            out.emit(text, meta)
        out.fn_ranges.append((start, out.line, qual, fs.tags if fs else []))
        sha = hashlib.sha256(f.src[f.header_start:f.end].encode()).hexdigest()[:16]
        log.append({'fn': qual, 'src_sha': sha, 'rules': asm.log, 'contract': fs.line if fs else None,
                    'external_body': bool(fs and fs.external_body),
                    'emitted': ((fs.as_inherent[5:] if fs.as_inherent.startswith('free:') else fs.as_inherent) if fs and fs.as_inherent else f.name),
                    'mod': cur_mod_path[0]})

    def emit_const(c, opts, qual, in_trait=False):
        t = publicize_header(norm_header(c.src[c.header_start:c.end]))
        if not in_trait and not t.startswith('pub '):
            t = 'pub ' + t
        if in_trait:
            t = re.sub(r'^pub\s+', '', t)
        # R13c: inside verus! a const becomes a function, where an elided reference lifetime is not allowed
        t = re.sub(r"&\s*str\b", "&'static str", t.split('=')[0]) + ('=' + '='.join(t.split('=')[1:]) if '=' in t else '')
        if opts.get('external'):
            out.emit('#[verifier::external_body]\n', {'kind': 'assumption', 'fn': qual, 'tags': [],
                                                      'text': 'external_body const %s (contents given by an axiom discharged in Kani)' % qual})
        body, _ = rules.r1_debug_asserts(t)
        out.emit(body + '\n', {'kind': 'const', 'fn': qual, 'tags': [], 'text': ''})
        log.append({'fn': qual, 'src_sha': hashlib.sha256(c.text.encode()).hexdigest()[:16], 'rules': [],
                    'contract': None, 'external_body': bool(opts.get('external'))})

    def emit_entry(e, mp, modnode):
        it = e['item']
        if it.kind == 'fn':
            for f, fs in e['fns']:
                emit_fn(f, fs, mp + '::' + f.name)
            if e['whole'] and not e['fns']:
                emit_fn(it, None, mp + '::' + it.name)
            return
        if it.kind == 'const' or it.kind == 'static':
            emit_const(it, e['opts'], mp + '::' + it.name)
            return
        if it.kind == 'struct':
            der = [d for d in (e['opts'].get('derive') or '').split(',') if d]
            if der:
                check_derives(modnode, it.name, der)
                out.emit('#[derive(%s)]\n' % ', '.join(der))
            out.emit(pub_fields(it), {'kind': 'type', 'fn': mp + '::' + it.name, 'tags': [], 'text': ''})
            return
        if it.kind == 'mod':
            t = publicize_header(strip_attrs_and_docs_deep(it.src[it.header_start:it.end]))
            if not t.startswith('pub '):
                t = 'pub ' + t
            out.emit(t + '\n', {'kind': 'type', 'fn': mp + '::' + it.name, 'tags': [], 'text': 'module kept verbatim'})
            return
        if it.kind in ('enum', 'type'):
            der = [d for d in (e['opts'].get('derive') or '').split(',') if d]
            if der:
                check_derives(modnode, it.name, der)
                out.emit('#[derive(%s)]\n' % ', '.join(der))
            t = publicize_header(strip_attrs_and_docs_deep(it.src[it.header_start:it.end]))
            if not t.startswith('pub '):
                t = 'pub ' + t
            out.emit(t + '\n', {'kind': 'type', 'fn': mp + '::' + it.name, 'tags': [], 'text': ''})
            return
        if it.kind in ('impl', 'trait'):
            hdr = publicize_header(norm_header(it.header))
            is_trait_decl = it.kind == 'trait'
            g, tr, ty, wh = impl_header_info(it.header) if it.kind == 'impl' else ('', None, it.name, '')
            if is_trait_decl and not hdr.startswith('pub '):
                hdr = 'pub ' + hdr
            selected = {id(f): fs for f, fs in e['fns']}
            inherent_moves = [(f, fs) for f, fs in e['fns'] if fs.as_inherent]
            normal = [c for c in it.children
                      if (id(c) in selected and not selected[id(c)].as_inherent)
                      or (e['whole'] and c.kind in ('fn', 'const', 'type'))
                      or (is_trait_decl and c.kind == 'fn' and c.body_open is None)
                      or (is_trait_decl and c.kind in ('const', 'type'))
                      or any(c is cc for cc, _ in e['consts'])]
            if normal or e['whole'] or e.get('inject'):
                out.emit(hdr + ' {\n')
                for text, origin in e.get('inject', []):
                    out.emit('// ---- injected from %s\n' % origin)
                    out.emit(text + '\n', {'kind': 'spec', 'fn': mp, 'tags': [], 'text': origin})
                for c in it.children:
                    if not any(c is n for n in normal):
                        continue
                    qual = '%s::%s::%s' % (mp, ('<%s for %s>' % (tr, ty)) if tr else ty, c.name)
                    if c.kind == 'fn':
                        emit_fn(c, selected.get(id(c)), qual, in_trait_impl=(tr is not None), in_trait_decl=is_trait_decl)
                    elif c.kind == 'const':
                        opts = {}
                        for cc, o in e['consts']:
                            if cc is c:
                                opts = o
                        emit_const(c, opts, qual, in_trait=(tr is not None or is_trait_decl))
                    elif c.kind == 'type':
                        out.emit(norm_header(c.src[c.header_start:c.end]) + '\n')
                out.emit('}\n')
            free_moves = [(f, fs) for f, fs in inherent_moves if fs.as_inherent.startswith('free:')]
            inherent_moves = [(f, fs) for f, fs in inherent_moves if not fs.as_inherent.startswith('free:')]
            if free_moves:
                # `as_inherent free:NAME`: the impl is on a foreign type (no inherent impl possible): the method — which must not
                # take `self` — is emitted as a free function carrying all generics and where-predicates of the impl
                all_g = [prm.strip() for prm in split_top(g[1:-1], ',') if prm.strip()] if g else []
                all_w = [pred.strip() for pred in split_top(re.sub(r'^\s*where\b', '', wh or ''), ',') if pred.strip()]
                for f, fs in free_moves:
                    if re.search(r'\(\s*(?:&\s*(?:mut\s+)?)?self\b', f.src[f.header_start:f.body_open or f.end]):
                        raise Undecided('%s: as_inherent free:… on a method that takes self' % f.name)
                    import copy as _copy
                    fs2 = _copy.copy(fs)
                    fs2.as_inherent = fs.as_inherent[5:]
                    qual = '%s::<%s for %s>::%s' % (mp, tr, ty, f.name)
                    emit_fn(f, fs2, qual, extra_generics=all_g, extra_where=all_w, self_ty=ty)
            if inherent_moves:
                # generics of the trait impl that do not occur in the self type move to the fn
                keep_g, move_g = [], []
                if g:
                    for prm in split_top(g[1:-1], ','):
                        prm = prm.strip()
                        if not prm:
                            continue
                        nm = re.match(r"^(?:const\s+)?('?\w+)", prm).group(1)
                        (keep_g if re.search(r'(?<![\w])%s\b' % re.escape(nm), ty) else move_g).append(prm)
                # where-predicates that mention a moved generic move to the fn as well
                moved_names = [re.match(r"^(?:const\s+)?('?\w+)", prm).group(1) for prm in move_g]
                keep_w, move_w = [], []
                for pred in split_top(re.sub(r'^\s*where\b', '', wh or ''), ','):
                    pred = pred.strip()
                    if pred:
                        (move_w if any(re.search(r'(?<![\w])%s\b' % re.escape(nm), pred) for nm in moved_names) else keep_w).append(pred)
                ih = 'impl%s %s %s' % (('<' + ', '.join(keep_g) + '>') if keep_g else '', ty,
                                       ('where ' + ', '.join(keep_w)) if keep_w else '')
                out.emit(norm_ws(ih) + ' {\n')
                assoc = {}
                for c in it.children:
                    if c.kind == 'type':
                        m_ = re.match(r'^type\s+(\w+)\s*=\s*(.*?);$', norm_header(c.src[c.header_start:c.end]))
                        if m_:
                            assoc[m_.group(1)] = m_.group(2)
                for f, fs in inherent_moves:
                    qual = '%s::<%s for %s>::%s' % (mp, tr, ty, f.name)
                    emit_fn(f, fs, qual, extra_generics=move_g, assoc=assoc, extra_where=move_w)
                out.emit('}\n')
            return
        raise Undecided('cannot emit item kind %s' % it.kind)

    emit_mod(tree, '')
    out.emit('\n} // verus!\n\nfn main() {}\n')
    out.detached = detached
    return out, log


def strip_attrs_and_docs_deep(t):
    """Remove all comments and #[...] attributes anywhere in an item text (used
    for enum/type items, where attributes have no meaning for verification)."""
    res = []
    i = 0
    for kind, a, b in tokens(t, keep_ws=True):
        pass
    out = []
    i = 0
    n = len(t)
    while i < n:
        tk = rsparse.next_code(t, i)
        kind, a, b = tk
        if kind == 'comment':
            i = b
            continue
        if kind == 'punct' and t.startswith('#[', a):
            j = t.index('[', a)
            i = match_delim(t, j) + 1
            continue
        out.append(t[a:b])
        i = b
    return re.sub(r'\n\s*\n', '\n', ''.join(out))


def build_unit(vc_path, out_dir, detach=None):
    unit = parse_contract_file(vc_path)
    if not unit.name:
        unit.name = os.path.splitext(os.path.basename(vc_path))[0]
    src, srcpath = expand(unit.features, unit.no_default)
    with _ASSEMBLE_LOCK:
        out, log = assemble(unit, src, detach)
    os.makedirs(out_dir, exist_ok=True)
    rs = os.path.join(out_dir, unit.name + '.rs')
    with open(rs, 'w') as fh:
        fh.write(out.text())
    meta = {'unit': unit.name, 'features': unit.features, 'expanded': srcpath,
            'clauses': out.meta, 'fn_ranges': out.fn_ranges, 'functions': log,
            'properties': unit.properties, 'verus_args': unit.verus_args, 'detached': out.detached}
    with open(os.path.join(out_dir, unit.name + '.map.json'), 'w') as fh:
        json.dump(meta, fh, indent=1)
    return rs, meta


if __name__ == '__main__':
    if len(sys.argv) >= 2 and sys.argv[1] == '--selftest':
        sys.exit(1 if rules.selftest() else 0)
    try:
        rs, meta = build_unit(sys.argv[1], sys.argv[2] if len(sys.argv) > 2 else os.path.join(CACHE, 'units'))
        print(rs)
    except Undecided as e:
        print('UNDECIDED: %s' % e)
        sys.exit(2)
