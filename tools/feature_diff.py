#!/usr/bin/env python3
"""C14 helper: compare the rustc-expanded text of every function under contract between the default feature set and
another feature set.  Identical expanded text => the proof of the default build is a proof of that build too."""
import json
import os
import sys

sys.path.insert(0, os.path.dirname(os.path.abspath(__file__)))
import extract


def fn_shas(vc, features=None, no_default=None):
    unit = extract.parse_contract_file(vc)
    if features is not None:
        unit.features = list(features)
    if no_default is not None:
        unit.no_default = no_default
    src, _ = extract.expand(unit.features, unit.no_default)
    try:
        out, log = extract.assemble(unit, src)
    except extract.Undecided as e:
        return None, str(e)
    return {f['fn']: f['src_sha'] for f in log}, None


def compare(vc, features, no_default=False):
    base, err = fn_shas(vc)
    if base is None:
        raise extract.Undecided('default expansion: ' + err)
    other, err = fn_shas(vc, features, no_default)
    rep = {'unit': os.path.basename(vc), 'features': list(features), 'no_default': no_default,
           'same': [], 'different': [], 'missing_or_unextractable': None}
    if other is None:
        rep['missing_or_unextractable'] = err
        return rep
    for fn, sha in sorted(base.items()):
        if fn not in other:
            rep['different'].append(fn + ' (absent)')
        elif other[fn] == sha:
            rep['same'].append(fn)
        else:
            rep['different'].append(fn)
    return rep


if __name__ == '__main__':
    vc = sys.argv[1]
    feats = [f for f in sys.argv[2].split(',') if f] if len(sys.argv) > 2 else []
    nd = '--no-default' in sys.argv
    r = compare(vc, feats, nd)
    print(json.dumps({k: (v if k != 'same' else len(v)) for k, v in r.items()}, indent=1))


def unsafe_release_invariants(vc):
    """For every function under contract: the conditions handed to core::hint::assert_unchecked() in the
    `--release --features unsafe` expansion must be among the debug_assert!/invariant! conditions that the default (dev)
    expansion turns into proof obligations (rule R1).  Returns a report."""
    import re
    import rsparse
    unit = extract.parse_contract_file(vc)
    src_dev, _ = extract.expand(unit.features, unit.no_default)
    src_rel, _ = extract.expand(list(unit.features) + ['unsafe'], unit.no_default, release=True)
    rep = {'unit': os.path.basename(vc), 'functions': 0, 'assert_unchecked_sites': 0, 'covered': 0, 'uncovered': [], 'unextractable': None}

    def conds(src, pattern):
        items = rsparse.parse_items(src, 0, len(src))
        plan = extract.collect_unit(items, unit)
        out = {}
        for mp, entries in plan.items():
            for e in entries:
                for f, fs in e['fns']:
                    body = f.src[f.body_open:f.body_close + 1] if f.body_open is not None else ''
                    cs = []
                    for m in re.finditer(pattern, body):
                        po = body.index('(', m.end() - 1)
                        pc = rsparse.match_delim(body, po)
                        cs.append(rsparse.norm_ws(body[po + 1:pc]))
                    out['%s::%s' % (mp, f.name)] = cs
        return out
    try:
        dev = conds(src_dev, r'if true \{\s*if !\s*\(')
        # unparenthesised form `if !f(x) {` is handled by taking the text up to the brace
        rel = conds(src_rel, r'assert_unchecked\s*\(')
    except extract.Undecided as e:
        rep['unextractable'] = str(e)
        return rep
    # dev conditions: also collect the unparenthesised ones textually
    items = None
    for fn, cs in rel.items():
        rep['functions'] += 1
        devc = set(dev.get(fn, []))
        for c in cs:
            rep['assert_unchecked_sites'] += 1
            c2 = c
            if c2 in devc or ('(' + c2 + ')') in devc or c2.strip('()') in set(x.strip('()') for x in devc):
                rep['covered'] += 1
            else:
                rep['uncovered'].append('%s: %s' % (fn, c2[:100]))
    return rep
