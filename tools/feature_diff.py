#!/usr/bin/env python3
"""C14 helper: compare the rustc-expanded text of every function under contract between the default feature set and
another feature set.  Identical expanded text => the proof of the default build is a proof of that build too."""
import json
import os
import sys

sys.path.insert(0, os.path.dirname(os.path.abspath(__file__)))
import extract


def fn_shas(vc, features=None, no_default=None):
    unit = extract.parse_contract_file(vc)
    if features is not None:
        unit.features = list(features)
    if no_default is not None:
        unit.no_default = no_default
    src, _ = extract.expand(unit.features, unit.no_default)
    try:
        with extract._ASSEMBLE_LOCK:
            out, log = extract.assemble(unit, src)
    except extract.Undecided as e:
        return None, str(e)
    return {f['fn']: f['src_sha'] for f in log if not f.get('external_body')}, None


_COVER_CACHE = {}


def covering(covered_by, features, no_default=False):
    """{fn: [unit, ...]} for the functions whose body is verified in one of the variant units `covered_by` AND whose
    text, as that unit extracts it under its own declared features, is the text under `features` (so the variant unit's proof
    is a proof about the feature set being compared)."""
    key = (tuple(covered_by), tuple(features), no_default)
    if key in _COVER_CACHE:
        return _COVER_CACHE[key]
    out = {}
    for u in covered_by:
        vc = os.path.join(extract.VERIF, 'contracts', u + '.vc')
        own, err = fn_shas(vc)
        if own is None:
            continue
        unit = extract.parse_contract_file(vc)
        if sorted(unit.features) == sorted(features) and bool(unit.no_default) == bool(no_default):
            under = own
        else:
            under, err = fn_shas(vc, features, no_default)
            if under is None:
                continue
        for fn, sha in own.items():
            if under.get(fn) == sha:
                out.setdefault(fn, []).append(u)
    _COVER_CACHE[key] = out
    return out


def compare(vc, features, no_default=False, covered_by=None):
    base, err = fn_shas(vc)
    if base is None:
        raise extract.Undecided('default expansion: ' + err)
    other, err = fn_shas(vc, features, no_default)
    rep = {'unit': os.path.basename(vc), 'features': list(features), 'no_default': no_default,
           'same': [], 'different': [], 'different_covered_by': {}, 'different_uncovered': [], 'missing_or_unextractable': None}
    if other is None:
        rep['missing_or_unextractable'] = err
        return rep
    for fn, sha in sorted(base.items()):
        if fn not in other:
            rep['different'].append(fn + ' (absent)')
        elif other[fn] == sha:
            rep['same'].append(fn)
        else:
            rep['different'].append(fn)
    if covered_by is not None:
        cov = covering(covered_by, features, no_default)
        for fn in rep['different']:
            name = fn.replace(' (absent)', '')
            if fn.endswith('(absent)'):
                continue    # the function does not exist in that build: nothing to verify there (it stays listed)
            if name in cov:
                rep['different_covered_by'][fn] = cov[name]
            else:
                rep['different_uncovered'].append(fn)
    return rep


if __name__ == '__main__':
    vc = sys.argv[1]
    feats = [f for f in sys.argv[2].split(',') if f] if len(sys.argv) > 2 else []
    nd = '--no-default' in sys.argv
    r = compare(vc, feats, nd)
    print(json.dumps({k: (v if k != 'same' else len(v)) for k, v in r.items()}, indent=1))


def unsafe_release_invariants(vc):
    """For every function under contract: the conditions handed to core::hint::assert_unchecked() in the
    `--release --features unsafe` expansion must be among the debug_assert!/invariant! conditions that the default (dev)
    expansion turns into proof obligations (rule R1).  Returns a report."""
    import re
    import rsparse
    unit = extract.parse_contract_file(vc)
    # baseline: the dev-profile expansion WITH the feature (functions whose text differs under `unsafe` are verified in that
    # form by the variant units — feature check `unsafe (dev profile)` demands it; for all others the text is the default one)
    src_dev, _ = extract.expand(list(unit.features) + ['unsafe'], unit.no_default)
    src_rel, _ = extract.expand(list(unit.features) + ['unsafe'], unit.no_default, release=True)
    rep = {'unit': os.path.basename(vc), 'functions': 0, 'assert_unchecked_sites': 0, 'covered': 0, 'uncovered': [], 'unextractable': None}

    def conds(src, pattern):
        items = rsparse.parse_items(src, 0, len(src))
        plan = extract.collect_unit(items, unit)
        out = {}
        for mp, entries in plan.items():
            for e in entries:
                for f, fs in e['fns']:
                    body = f.src[f.body_open:f.body_close + 1] if f.body_open is not None else ''
                    cs = []
                    for m in re.finditer(pattern, body):
                        po = body.index('(', m.end() - 1)
                        pc = rsparse.match_delim(body, po)
                        cs.append(rsparse.norm_ws(body[po + 1:pc]))
                    out['%s::%s' % (mp, f.name)] = cs
        return out
    try:
        dev = conds(src_dev, r'if true \{\s*if !\s*\(')
        # unparenthesised form `if !f(x) {` is handled by taking the text up to the brace
        rel = conds(src_rel, r'assert_unchecked\s*\(')
    except extract.Undecided as e:
        rep['unextractable'] = str(e)
        return rep
    # dev conditions: also collect the unparenthesised ones textually
    items = None
    for fn, cs in rel.items():
        rep['functions'] += 1
        devc = set(dev.get(fn, []))
        for c in cs:
            rep['assert_unchecked_sites'] += 1
            c2 = c
            if c2 in devc or ('(' + c2 + ')') in devc or c2.strip('()') in set(x.strip('()') for x in devc):
                rep['covered'] += 1
            else:
                rep['uncovered'].append('%s: %s' % (fn, c2[:100]))
    return rep


# ---------------------------------------------------------------------------------------------------------------------
# whole-crate comparison (every function under contract in ANY default-feature unit), independent of unit assembly

import glob
import hashlib
import re
import rsparse

_IDX = {}


def fn_index(features=(), no_default=False, release=False):
    """{key: (sha, item)} for every fn with a body in the expansion; key = module | normalised impl header | fn name."""
    k = (tuple(sorted(features)), bool(no_default), bool(release))
    if k in _IDX:
        return _IDX[k]
    src, _ = extract.expand(list(features), no_default, release)
    items = rsparse.parse_items(src, 0, len(src))
    idx = {}
    by_start = {}

    def add(key, it):
        if it.body_open is None:
            return
        sha = hashlib.sha256(it.src[it.header_start:it.end].encode()).hexdigest()[:16]
        n = 2
        k0 = key
        while key in idx:       # same name twice (cfg-dependent duplicates): keep both, numbered in source order
            key = '%s#%d' % (k0, n)
            n += 1
        idx[key] = (sha, it)
        by_start[it.start] = key

    def walk(its, path):
        for it in its:
            if it.kind == 'mod':
                walk(it.children or [], path + [it.name])
            elif it.kind == 'impl':
                hdr = rsparse.norm_ws(re.sub(r'\s+', ' ', it.header))
                for c in it.children or []:
                    if c.kind == 'fn':
                        add('%s|%s|%s' % ('::'.join(path), hdr, c.name), c)
            elif it.kind == 'trait':
                for c in it.children or []:
                    if c.kind == 'fn':
                        add('%s|trait %s|%s' % ('::'.join(path), it.name, c.name), c)
            elif it.kind == 'fn':
                add('%s||%s' % ('::'.join(path), it.name), it)
    walk(items, [])
    _IDX[k] = (idx, by_start, items)
    return _IDX[k]


_CONTRACTED = {}


def contracted(unit_names=None):
    """{key: [units]}: functions whose body is verified by some unit, in the expansion of that unit's OWN feature set.
    unit_names=None -> every default-feature unit."""
    ck = tuple(unit_names) if unit_names is not None else None
    if ck in _CONTRACTED:
        return _CONTRACTED[ck]
    out = {}
    errs = []
    if unit_names is None:
        vcs = sorted(glob.glob(os.path.join(extract.VERIF, 'contracts', '*.vc')))
    else:
        vcs = [os.path.join(extract.VERIF, 'contracts', u + '.vc') for u in unit_names]
    for vc in vcs:
        unit = extract.parse_contract_file(vc)
        if not unit.name:
            continue
        if unit_names is None and (unit.features or unit.no_default):
            continue
        idx, by_start, items = fn_index(unit.features, unit.no_default)
        try:
            plan = extract.collect_unit(items, unit)
        except extract.Undecided as e:
            errs.append('%s: %s' % (unit.name, e))
            continue
        for mp, entries in plan.items():
            for e in entries:
                for f, fs in e['fns']:
                    if fs.external_body or fs.no_body:
                        continue
                    key = by_start.get(f.start)
                    if key is not None:
                        out.setdefault(key, {})[unit.name] = idx[key][0]
    _CONTRACTED[ck] = (out, errs)
    return _CONTRACTED[ck]


def compare_all(features, no_default=False, covered_by=()):
    """Every function under contract in a default-feature unit: same text under the other feature set, or the differing text is
    the text a variant unit (covered_by) verifies, or the function does not exist there."""
    base, errs = contracted(None)
    rep = {'kind': 'same_text_all', 'features': list(features), 'no_default': no_default, 'functions': len(base),
           'same': 0, 'absent': [], 'different_covered_by': {}, 'different_uncovered': [], 'feature_only_functions': 0,
           'feature_only_not_under_contract': [], 'errors': list(errs)}
    didx, _, _ = fn_index((), False)
    oidx, _, _ = fn_index(features, no_default)
    cov, cerrs = contracted(list(covered_by)) if covered_by else ({}, [])
    rep['errors'] += cerrs
    for key in sorted(base):
        name = key.replace('|', ' :: ')
        if key not in oidx:
            rep['absent'].append(name)
        elif oidx[key][0] == didx[key][0]:
            rep['same'] += 1
        else:
            us = [u for u, sha in cov.get(key, {}).items() if sha == oidx[key][0]]
            if us:
                rep['different_covered_by'][name] = us
            else:
                rep['different_uncovered'].append(name)
    for key in sorted(oidx):
        if key not in didx:
            it = oidx[key][1]
            attrs = it.src[it.attrs_start:it.header_start] if it.attrs_start is not None else ''
            if 'automatically_derived' in attrs:
                continue
            rep['feature_only_functions'] += 1
            if key not in cov:
                rep['feature_only_not_under_contract'].append(key.replace('|', ' :: '))
    return rep


def release_invariants_all():
    """Every function under contract: the conditions handed to core::hint::assert_unchecked() in the `--release --features unsafe`
    expansion are among the debug_assert!/invariant! conditions of the dev-profile `unsafe` expansion of the same function
    (which rule R1 turns into proof obligations; that those dev-profile texts are verified is what compare_all(['unsafe']) checks)."""
    base, errs = contracted(None)
    vb, verrs = contracted(['generator_unsafe', 'text_unsafe', 'unchecked'])
    dev, _, _ = fn_index(['unsafe'], False)
    rel, _, _ = fn_index(['unsafe'], False, release=True)
    rep = {'kind': 'unsafe_release_invariants_all', 'functions': 0, 'assert_unchecked_sites': 0, 'covered': 0, 'uncovered': [],
           'errors': list(errs) + list(verrs)}

    def conds(it, pattern):
        body = it.src[it.body_open:it.body_close + 1]
        cs = []
        for m in re.finditer(pattern, body):
            po = body.index('(', m.end() - 1)
            pc = rsparse.match_delim(body, po)
            cs.append(rsparse.norm_ws(body[po + 1:pc]).strip())
        return cs

    def strip_par(c):
        c = c.strip()
        while c.startswith('(') and rsparse.match_delim(c, 0) == len(c) - 1:
            c = c[1:-1].strip()
        return c
    for key in sorted(set(base) | set(vb)):
        if key not in rel or key not in dev:
            continue
        rep['functions'] += 1
        body = dev[key][1].src[dev[key][1].body_open:dev[key][1].body_close + 1]
        devc = set(strip_par(c) for c in conds(dev[key][1], r'if true \{\s*if !\s*\('))
        # unparenthesised `if true { if !f(x) {`
        for m in re.finditer(r'if true \{\s*if !\s*([^({][^{]*?)\s*\{', body):
            devc.add(strip_par(rsparse.norm_ws(m.group(1))))
        for c in conds(rel[key][1], r'assert_unchecked\s*\('):
            rep['assert_unchecked_sites'] += 1
            if strip_par(c) in devc:
                rep['covered'] += 1
            else:
                rep['uncovered'].append('%s: %s' % (key.replace('|', ' :: '), c[:100]))
    return rep


def uncontracted_new(unit_names):
    """Completeness guard: functions (with a body, not compiler-derived) of the default expansion that lie in a module one of the
    given units works on, are under contract in NO unit (verified or external_body) and match no entry of
    contracts/COVERAGE_NOTES.json (the reasoned allow-list of code outside the contracts).  On the unchanged tree: none.
    A hand-written `impl Clone` replacing a derive, a new public function, a new trait impl … show up here."""
    import json
    idx, by_start, items = fn_index((), False)
    # every function named by any @fn of any default-feature unit (verified or not)
    named = set()
    mods = set()
    for vc in sorted(glob.glob(os.path.join(extract.VERIF, 'contracts', '*.vc'))):
        unit = extract.parse_contract_file(vc)
        if not unit.name or unit.features or unit.no_default:
            continue
        if unit.name in unit_names:
            mods.update(unit.order)
        try:
            plan = extract.collect_unit(items, unit)
        except extract.Undecided:
            continue
        for mp, entries in plan.items():
            for e in entries:
                for f, fs in e['fns']:
                    k = by_start.get(f.start)
                    if k:
                        named.add(k)
                if e['whole'] and e['item'].kind in ('impl', 'trait', 'fn', 'mod'):
                    # items kept verbatim (e.g. @keep impl /…/, @keep mod private)
                    def _all(it):
                        if it.kind == 'fn':
                            k = by_start.get(it.start)
                            if k:
                                named.add(k)
                        for c in (it.children or []):
                            _all(c)
                    _all(e['item'])
    notes = {}
    npath = os.path.join(extract.VERIF, 'contracts', 'COVERAGE_NOTES.json')
    if os.path.exists(npath):
        notes = json.load(open(npath))
    out = []
    for key, (sha, it) in sorted(idx.items()):
        mod = key.split('|')[0]
        if mod not in mods or key in named:
            continue
        attrs = it.src[it.attrs_start:it.header_start] if it.attrs_start is not None else ''
        # derived impls: the attribute sits on the impl, look backwards a little
        pre = it.src[max(0, it.start - 400):it.start]
        name = key.replace('|', '::')
        hdr = key.split('|')[1]
        fname = key.split('|')[2].split('#')[0]
        if hdr.startswith('impl'):
            g_, tr_, ty_, wh_ = rsparse.impl_header_info(hdr)
            if tr_:
                label = '<%s for %s>' % (re.sub(r'\s+', ' ', tr_), re.sub(r'\s+', ' ', ty_))
            else:
                bm = re.match(r'^[&\w:]+', ty_.strip())
                label = bm.group(0).split('::')[-1] if bm else ty_
            disp = '%s::%s::%s' % (mod, label, fname)
        elif hdr.startswith('trait '):
            disp = '%s::%s::%s' % (mod, hdr, fname)
        else:
            disp = '%s::%s' % (mod, fname)
        if any(re.search(rx, name) or re.search(rx, disp) for rx in notes):
            continue
        out.append((key, it))
    # filter compiler-derived impls (attribute on the enclosing impl)
    res = []
    src = None
    for key, it in out:
        s_ = it.src
        # find the enclosing impl start: search backwards for "#[automatically_derived]" between the previous '}' at depth and the fn
        back = s_[max(0, it.start - 1500):it.start]
        k = back.rfind('impl')
        seg = back[max(0, k - 200):k] if k >= 0 else ''
        if 'automatically_derived' in seg:
            continue
        res.append(key.replace('|', ' :: '))
    return res
