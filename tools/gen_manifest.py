#!/usr/bin/env python3
"""Regenerate MANIFEST.json from contracts/PROPERTIES.json (claimed) and contracts/NOT_APPLICABLE.json."""
import json, os
V = os.path.dirname(os.path.dirname(os.path.abspath(__file__)))
props = json.load(open(os.path.join(V, 'contracts', 'PROPERTIES.json')))
na = json.load(open(os.path.join(V, 'contracts', 'NOT_APPLICABLE.json')))
ids = [json.loads(l)['id'] for l in open(os.path.join(V, 'properties.jsonl')) if l.strip()]
checks = []
for pid in ids:
    if pid not in props:
        continue
    c = props[pid]
    checks.append({
        'property_id': pid,
        'quick_cmd': 'bin/check %s --tier quick' % pid,
        'thorough_cmd': 'bin/check %s --tier thorough' % pid,
        'evidence_file': '/verif/evidence/%s.json' % pid,
        'replay_cmd_template': 'bin/check %s --replay {path}' % pid,
        'engine': 'contracts',
        'level_claimed': {'category': c.get('level', 'proof'), 'text': c['level_text'], 'design_ref': c.get('design_ref', 'DESIGN.md §6 ' + pid)},
        'level_note': c['level_note'],
        'technique': c.get('technique', 'contract-based deductive verification (Verus on mechanically extracted real code; Kani function-level harnesses on the real crate)'),
    })
m = {
    'version': 1,
    'setup_cmd': 'python3 tools/extract.py --selftest && python3 tools/setup.py && python3 tools/transval.py --selftest',
    'hooks': {
        'guard': '--cfg a4lg_ffuzzy_verif',
        'enable': 'RUSTFLAGS="--cfg a4lg_ffuzzy_verif" (used only by the replay/concretiser crate; the verifiers work on the unmodified sources: Verus on the rustc-expanded text, Kani on a scratch copy with harness modules appended)',
        'baseline_off_cmd': 'cd /repo && cargo test --workspace --no-fail-fast --offline',
        'source_commits': json.load(open(os.path.join(V, 'contracts', 'HOOK_COMMITS.json'))),
        'add_only': True,
    },
    'engines': [
        {'name': 'contracts', 'path': 'bin/check', 'serves_properties': [c['property_id'] for c in checks],
         'kind_free_text': 'contract files (contracts/*.vc) injected into functions extracted from rustc\'s expansion of the working tree, discharged by Verus; Kani harnesses/contracts (kani/harness/*.rs) on the real crate for scalar and table obligations; concretiser (replay/) only attaches failing inputs'},
    ],
    'checks': checks,
    'not_applicable': [{'property_id': p, 'reason': na[p]} for p in ids if p not in props],
    'notes': 'exit 0 ok / 1 VIOLATION / 2 UNDECIDED (never an alarm). See DESIGN.md.',
}
json.dump(m, open(os.path.join(V, 'MANIFEST.json'), 'w'), indent=1)
print('MANIFEST.json: %d checks, %d not_applicable' % (len(checks), len(m['not_applicable'])))
