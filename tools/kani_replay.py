#!/usr/bin/env python3
"""Native replay of a Kani counterexample against the real code.

Kani's concrete playback gives the byte values of the harness's `kani::any()` calls in order.  The harness body is
ordinary Rust that calls the real functions and asserts; here the injected harness module is compiled natively
(`--cfg verif_replay`) with a tiny `kani` shim whose `any()` pops those values, and run as a unit test of the scratch
copy of the crate.  If the assertion fires natively, the counterexample is confirmed on the real code."""
import os
import re
import subprocess
import sys

sys.path.insert(0, os.path.dirname(os.path.abspath(__file__)))
import extract

SHIM = r'''
// ---- injected by /verif/tools/kani_replay.py: native stand-in for the `kani` API (values come from Kani's counterexample)
#[cfg(verif_replay)]
pub mod verif_replay_kani {
    extern crate std;
    use std::cell::RefCell;
    use std::vec::Vec;
    std::thread_local! { static VALS: RefCell<(Vec<Vec<u8>>, usize)> = RefCell::new((Vec::new(), 0)); }
    pub fn set(v: Vec<Vec<u8>>) { VALS.with(|c| *c.borrow_mut() = (v, 0)); }
    fn next() -> Vec<u8> {
        VALS.with(|c| {
            let mut c = c.borrow_mut();
            let i = c.1;
            c.1 += 1;
            if i < c.0.len() { c.0[i].clone() } else { Vec::new() }   // values CBMC left unconstrained: zero
        })
    }
    pub trait Arb: Sized { fn arb() -> Self; }
    macro_rules! int_arb { ($($t:ty),*) => { $(impl Arb for $t { fn arb() -> Self {
        let b = next(); let mut a = [0u8; core::mem::size_of::<$t>()];
        let n = core::cmp::min(a.len(), b.len()); a[..n].copy_from_slice(&b[..n]); <$t>::from_le_bytes(a) } })* } }
    int_arb!(u8, u16, u32, u64, u128, usize, i8, i16, i32, i64, isize);
    impl Arb for bool { fn arb() -> Self { let b = next(); !b.is_empty() && b[0] != 0 } }
    impl<T: Arb, const N: usize> Arb for [T; N] { fn arb() -> Self { core::array::from_fn(|_| T::arb()) } }
    pub fn any<T: Arb>() -> T { T::arb() }
    pub fn assume(c: bool) { if !c { panic!("VERIF-REPLAY: the counterexample violates a harness assumption (values not replayable)"); } }
}
'''


def native_replay(work_repo, harness_file_target, harness_name, values, timeout=900):
    """work_repo: the scratch copy with the harness already injected.  values: list of byte lists.
    Returns dict(confirmed: bool, output: str)."""
    src_path = os.path.join(work_repo, harness_file_target)
    src = open(src_path).read()
    # enable the injected harness modules natively
    marker = '// ---- injected by /verif/tools/kani_run.py'
    k = src.find(marker)
    if k < 0:
        return {'confirmed': False, 'output': 'no injected harness in ' + harness_file_target}
    head, tail = src[:k], src[k:]
    tail = tail.replace('#[cfg(kani)]', '#[cfg(verif_replay)]')
    tail = re.sub(r'^\s*#\[kani::[^\n]*\]\s*$', '', tail, flags=re.M)
    tail = re.sub(r'#\[kani::[a-z_]+(\([^\]]*\))?\]', '', tail)
    tail = re.sub(r'(mod verif_kani_\w+\s*\{\s*\n\s*use super::\*;)', r'\1\n    #[allow(unused_imports)] use crate::verif_replay_kani as kani;', tail)
    vals = ', '.join('std::vec![%s]' % ', '.join('%du8' % b for b in v) for v in values)
    test = ('\n    #[cfg(verif_replay)]\n    #[test]\n    fn verif_replay_%s() {\n        extern crate std;\n'
            '        crate::verif_replay_kani::set(std::vec![%s]);\n        %s();\n    }\n' % (harness_name, vals, harness_name))
    # put the test inside the module that defines the harness fn
    m = re.search(r'fn\s+%s\s*\(\s*\)' % re.escape(harness_name), tail)
    if not m:
        return {'confirmed': False, 'output': 'harness fn not found for replay'}
    # find the enclosing `mod verif_kani_… {` and its closing brace
    mm = None
    for x in re.finditer(r'mod\s+verif_kani_\w+\s*\{', tail):
        if x.start() < m.start():
            mm = x
    import rsparse
    close = rsparse.match_delim(tail, mm.end() - 1)
    tail = tail[:close] + test + tail[close:]
    open(src_path, 'w').write(head + tail)
    lib = os.path.join(work_repo, 'ffuzzy', 'src', 'lib.rs')
    l = open(lib).read()
    if 'verif_replay_kani' not in l:
        open(lib, 'a').write(SHIM)
    env = dict(os.environ)
    env['CARGO_NET_OFFLINE'] = 'true'
    env['CARGO_TARGET_DIR'] = os.path.join(extract.CACHE, 'kani-replay-target')
    env['RUSTFLAGS'] = (env.get('RUSTFLAGS', '') + ' --cfg verif_replay -A unexpected_cfgs -A warnings').strip()
    cmd = ['cargo', 'test', '--offline', '--lib', 'verif_replay_' + harness_name, '--', '--exact', '--nocapture', '--test-threads', '1']
    # the test lives in a nested module: match by substring instead of --exact
    cmd = ['cargo', 'test', '--offline', '--lib', 'verif_replay_' + harness_name, '--', '--nocapture', '--test-threads', '1']
    try:
        p = subprocess.run(cmd, cwd=os.path.join(work_repo, 'ffuzzy'), env=env, stdout=subprocess.PIPE,
                           stderr=subprocess.STDOUT, text=True, timeout=timeout)
        out = p.stdout
    except subprocess.TimeoutExpired:
        return {'confirmed': False, 'output': 'native replay timed out'}
    tail_out = '\n'.join(l for l in out.split('\n') if 'panicked' in l or 'assertion' in l or 'test result' in l
                         or 'VERIF-REPLAY' in l or l.startswith('error'))[-3000:]
    confirmed = ('panicked' in out and 'VERIF-REPLAY' not in out and 'test result: FAILED' in out)
    return {'confirmed': confirmed, 'output': tail_out or out[-1500:]}
