#!/usr/bin/env python3
"""Inject Kani harnesses / function contracts into a scratch copy of /repo and run them.

Harness files live in kani/harness/*.rs.  Header lines (comments) say where the
text goes:
    //@inject <path relative to repo root>          append the rest of this file to that source file
    //@attr <path> fn <name> [nth=K]: <attribute>   insert an attribute line above that fn
    //@crate_attr <path>: <inner attribute>         insert at the very top of the crate root
The function bodies of the repository are never edited.
"""
import fcntl
import json
import os
import re
import shutil
import subprocess
import sys
import time

sys.path.insert(0, os.path.dirname(os.path.abspath(__file__)))
import extract

VERIF = extract.VERIF
REPO = extract.REPO
CACHE = extract.CACHE
HDIR = os.path.join(VERIF, 'kani', 'harness')


def registry():
    return json.load(open(os.path.join(VERIF, 'kani', 'HARNESSES.json')))


def prepare_work(files, features=''):
    """Copy the working tree into the persistent scratch dir and inject the harness files."""
    work = os.path.join(CACHE, 'kani-work')
    os.makedirs(work, exist_ok=True)
    dst = os.path.join(work, 'repo')
    os.makedirs(dst, exist_ok=True)
    for name in ('Cargo.toml', 'Cargo.lock'):
        shutil.copy2(os.path.join(REPO, name), os.path.join(dst, name))
    subprocess.run(['rsync', '-a', '--delete', '--exclude', 'target', os.path.join(REPO, 'ffuzzy') + '/',
                    os.path.join(dst, 'ffuzzy') + '/'], check=True)
    log = []
    for hf in files:
        text = open(os.path.join(HDIR, hf)).read()
        lines = text.split('\n')
        body = []
        target = None
        target_mod = None
        for ln in lines:
            m = re.match(r'^//@inject_in\s+(\S+)\s+mod\s+(\w+)', ln)
            if m:
                target = m.group(1)
                target_mod = m.group(2)
                continue
            m = re.match(r'^//@inject\s+(\S+)', ln)
            if m:
                target = m.group(1)
                target_mod = None
                continue
            m = re.match(r'^//@attr\s+(\S+)\s+fn\s+(\w+)(?:\s+nth=(\d+))?\s*:\s*(.*)$', ln)
            if m:
                path, fn, nth, attr = m.group(1), m.group(2), int(m.group(3) or 1), m.group(4)
                p = os.path.join(dst, path)
                src = open(p).read().split('\n')
                idx = [i for i, l in enumerate(src)
                       if re.match(r'^\s*(pub(\([^)]*\))?\s+)?(const\s+)?(unsafe\s+)?fn\s+%s\b' % re.escape(fn), l)]
                if len(idx) < nth:
                    raise extract.Undecided('kani: fn %s (nth=%d) not found in %s' % (fn, nth, path))
                i = idx[nth - 1]
                ind = re.match(r'^\s*', src[i]).group(0)
                src.insert(i, ind + attr)
                open(p, 'w').write('\n'.join(src))
                log.append('attr on %s::%s' % (path, fn))
                continue
            m = re.match(r'^//@crate_attr\s+(\S+)\s*:\s*(.*)$', ln)
            if m:
                p = os.path.join(dst, m.group(1))
                src = open(p).read()
                # after leading comments/inner attributes is fine: inner attributes may appear anywhere before items
                open(p, 'w').write(m.group(2) + '\n' + src)
                log.append('crate attr in %s' % m.group(1))
                continue
            body.append(ln)
        if target:
            p = os.path.join(dst, target)
            if not os.path.exists(p):
                raise extract.Undecided('kani: injection target %s no longer exists' % target)
            if target_mod:
                import rsparse
                src = open(p).read()
                mm = re.search(r'\bmod\s+%s\s*\{' % re.escape(target_mod), src)
                if not mm:
                    raise extract.Undecided('kani: module %s not found in %s' % (target_mod, target))
                close = rsparse.match_delim(src, mm.end() - 1)
                src = src[:close] + '\n// ---- injected by /verif/tools/kani_run.py from kani/harness/%s\n' % hf + '\n'.join(body) + '\n' + src[close:]
                open(p, 'w').write(src)
                log.append('insert %s -> %s (inside mod %s)' % (hf, target, target_mod))
            else:
                with open(p, 'a') as fh:
                    fh.write('\n// ---- injected by /verif/tools/kani_run.py from kani/harness/%s\n' % hf)
                    fh.write('\n'.join(body) + '\n')
                log.append('append %s -> %s' % (hf, target))
    return dst, log


def parse_kani_output(out):
    """Split cargo-kani output into per-harness results."""
    res = {}
    parts = re.split(r'Checking harness ([\w:]+)\.\.\.', out)
    # parts: [pre, name1, text1, name2, text2, ...]
    for k in range(1, len(parts), 2):
        name = parts[k].split('::')[-1]
        text = parts[k + 1]
        m = re.search(r'VERIFICATION:- (SUCCESSFUL|FAILED)', text)
        status = m.group(1) if m else 'UNKNOWN'
        if 'CBMC timed out' in text or 'timed out' in text.lower():
            status = 'TIMEOUT'
        failed = []
        for cm in re.finditer(r'Check \d+: (\S+)\n\s*- Status: (\w+)\n\s*- Description: "((?:[^"\\]|\\.|\n)*?)"\n\s*- Location: ([^\n]*)', text):
            if cm.group(2) in ('FAILURE', 'UNDETERMINED', 'UNREACHABLE') and cm.group(2) == 'FAILURE':
                failed.append({'check': cm.group(1), 'description': cm.group(3), 'location': cm.group(4)})
        if not failed:
            # fall back to the summary block ("Failed Checks: <description>\n File: "...", line N, in <fn>")
            for fm in re.finditer(r'Failed Checks: (.*?)\n\s*File: ([^\n]*)', text, re.S):
                failed.append({'check': 'summary', 'description': fm.group(1).strip(), 'location': fm.group(2).strip()})
        nchecks = len(re.findall(r'- Status: ', text))
        nsucc = len(re.findall(r'- Status: SUCCESS', text))
        tm = re.search(r'Verification Time: ([\d.]+)s', text)
        unwind_fail = any('unwinding assertion' in f['description'] for f in failed)
        if status == 'FAILED' and not failed:
            status = 'UNKNOWN'   # CBMC crashed / out of memory / killed: not a verdict
        res[name] = {'status': status, 'failed': failed, 'checks': nchecks, 'success_checks': nsucc,
                     'time_s': float(tm.group(1)) if tm else None, 'unwinding_failure': unwind_fail,
                     'text_tail': text[-3000:] if status != 'SUCCESSFUL' else ''}
    return res


def run_harnesses(names, timeout=1800, jobs=8, playback=False):
    """Run the named harnesses (all must exist in the registry).  Returns dict name -> result."""
    reg = {h['name']: h for h in registry()['harnesses']}
    for n in names:
        if n not in reg:
            raise extract.Undecided('kani harness %s is not registered' % n)
    files = sorted(set(reg[n]['file'] for n in names))
    # always inject every file that shares injection targets consistently: inject all files of the registry that are
    # needed by the selected harnesses plus their 'requires_files'
    extra = set()
    for n in names:
        for f in reg[n].get('requires_files', []):
            extra.add(f)
    files = sorted(set(files) | extra)
    lock = open(os.path.join(CACHE, 'kani.lock'), 'w') if os.path.isdir(CACHE) or not os.makedirs(CACHE, exist_ok=True) else None
    fcntl.flock(lock, fcntl.LOCK_EX)
    try:
        dst, ilog = prepare_work(files)
        groups = {}
        for n in names:
            key = (tuple(reg[n].get('flags', [])), reg[n].get('features', ''))
            groups.setdefault(key, []).append(n)
        results = {}
        cmds = []
        for (flags, feats), ns in groups.items():
            cmd = ['cargo', 'kani', '-Z', 'function-contracts', '-Z', 'stubbing'] + list(flags)
            if feats:
                cmd += ['--features', feats]
            for n in ns:
                cmd += ['--harness', n]
            cmd += ['--output-format', 'regular', '-Z', 'unstable-options', '--harness-timeout', '%ds' % max(reg[n].get('timeout', 300) for n in ns)]
            env = dict(os.environ)
            env['CARGO_NET_OFFLINE'] = 'true'
            env['CARGO_TARGET_DIR'] = os.path.join(CACHE, 'kani-target')
            t0 = time.time()
            try:
                p = subprocess.run(cmd, cwd=os.path.join(dst, 'ffuzzy'), env=env, stdout=subprocess.PIPE,
                                   stderr=subprocess.STDOUT, text=True, timeout=timeout)
                out = p.stdout
                to = False
            except subprocess.TimeoutExpired as e:
                out = e.stdout.decode('utf-8', 'replace') if isinstance(e.stdout, bytes) else (e.stdout or '')
                to = True
            wall = time.time() - t0
            cmds.append(' '.join(cmd))
            per = parse_kani_output(out)
            for n in ns:
                r = per.get(n)
                if r is None:
                    r = {'status': 'TIMEOUT' if to else 'NOT_RUN', 'failed': [], 'checks': 0, 'success_checks': 0,
                         'time_s': None, 'text_tail': out[-3000:]}
                r['cmd'] = ' '.join(cmd)
                r['wall_s'] = round(wall, 1)
                r['properties'] = reg[n].get('properties', [])
                r['axiom'] = reg[n].get('axiom')
                r['what'] = reg[n].get('what', '')
                r['domain'] = reg[n].get('domain', '')
                results[n] = r
        # counterexamples: re-run each failed harness with concrete playback and keep the verifier's values
        for n, r in results.items():
            if r['status'] != 'FAILED':
                continue
            cmd = ['cargo', 'kani', '-Z', 'function-contracts', '-Z', 'stubbing', '-Z', 'concrete-playback',
                   '--concrete-playback=print'] + list(reg[n].get('flags', [])) + ['--harness', n]
            env = dict(os.environ)
            env['CARGO_NET_OFFLINE'] = 'true'
            env['CARGO_TARGET_DIR'] = os.path.join(CACHE, 'kani-target')
            try:
                p = subprocess.run(cmd, cwd=os.path.join(dst, 'ffuzzy'), env=env, stdout=subprocess.PIPE,
                                   stderr=subprocess.STDOUT, text=True, timeout=600)
                m = re.search(r'Concrete playback unit test for.*?```(.*?)```', p.stdout, re.S)
                if m:
                    r['counterexample'] = m.group(1).strip()
                    vals = re.findall(r'//\s*(.*?)\n\s*vec!\[([^\]]*)\]', m.group(1))
                    r['counterexample_values'] = [{'value': a.strip(), 'bytes': b.strip()} for a, b in vals]
                    # replay the verifier's counterexample natively against the real code
                    try:
                        import kani_replay
                        text = open(os.path.join(HDIR, reg[n]['file'])).read()
                        tm = re.search(r'^//@inject(?:_in)?\s+(\S+)', text, re.M)
                        bytes_ = [[int(x) for x in b.split(',') if x.strip()] for a, b in vals]
                        rr = kani_replay.native_replay(dst, tm.group(1), n, bytes_)
                        r['native_replay'] = rr
                    except Exception as e:
                        r['native_replay'] = {'confirmed': False, 'output': 'native replay error: %r' % (e,)}
            except subprocess.TimeoutExpired:
                pass
        return results, ilog
    finally:
        fcntl.flock(lock, fcntl.LOCK_UN)
        lock.close()


if __name__ == '__main__':
    names = sys.argv[1:]
    if not names:
        names = [h['name'] for h in registry()['harnesses'] if h.get('tier', 'quick') == 'quick']
    try:
        res, ilog = run_harnesses(names)
    except extract.Undecided as e:
        print('UNDECIDED', e)
        sys.exit(2)
    bad = 0
    for n, r in res.items():
        print('%-40s %-10s checks=%d time=%s wall=%s' % (n, r['status'], r['checks'], r['time_s'], r['wall_s']))
        if r['status'] != 'SUCCESSFUL':
            bad += 1
            for f in r['failed']:
                print('    FAILED', f['check'], '|', f['description'][:200], '|', f['location'])
            if not r['failed']:
                print(r['text_tail'][-1500:])
    sys.exit(1 if bad else 0)
