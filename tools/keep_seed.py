#!/usr/bin/env python3
"""keep_seed.py <ID> <seed-name> "<detected-by text>" — move a confirmed seeded change from /tmp/seed-<ID> to /verif/seeded/<seed-name>/"""
import json, os, shutil, sys
pid, name, detected = sys.argv[1], sys.argv[2], sys.argv[3]
src = '/tmp/seed-%s' % pid
dst = '/verif/seeded/%s' % name
os.makedirs(dst, exist_ok=True)
shutil.copy(os.path.join(src, 'patch.diff'), dst)
shutil.copy(os.path.join(src, 'demo.rs'), dst)
meta = json.load(open(os.path.join(src, 'meta.json')))
meta['property'] = pid[:3]
meta['confirmed_by_main_session'] = open(os.path.join(src, 'confirm.txt')).read()
meta['detected_by'] = detected
meta['how_to_rerun'] = 'git -C /repo apply /verif/seeded/%s/patch.diff && (cd /verif && bin/check %s); git -C /repo checkout -- .' % (name, pid[:3])
json.dump(meta, open(os.path.join(dst, 'meta.json'), 'w'), indent=1)
print('kept', dst)
