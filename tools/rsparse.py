#!/usr/bin/env python3
"""Minimal Rust scanner for rustc's `-Zunpretty=expanded` output.

It does not parse expressions.  It knows enough lexical structure (strings,
raw strings, chars vs. lifetimes, comments, nested delimiters) to
  * split a module body into items,
  * split an impl/trait body into items,
  * find the matching delimiter for any opening one,
  * iterate over the "code" characters of a body (skipping strings/comments).
Everything else in the extractor is built on these four services.
"""
import re

IDENT = re.compile(r'[A-Za-z_][A-Za-z0-9_]*')


class ScanError(Exception):
    pass


def skip_string(s, i):
    """s[i] == '"' ; return index after the closing quote."""
    assert s[i] == '"'
    i += 1
    n = len(s)
    while i < n:
        c = s[i]
        if c == '\\':
            i += 2
            continue
        if c == '"':
            return i + 1
        i += 1
    raise ScanError('unterminated string')


def skip_raw_string(s, i):
    """s[i] == 'r' followed by #*" ; return index after end, or None."""
    j = i + 1
    h = 0
    while j < len(s) and s[j] == '#':
        h += 1
        j += 1
    if j < len(s) and s[j] == '"':
        end = s.find('"' + '#' * h, j + 1)
        if end < 0:
            raise ScanError('unterminated raw string')
        return end + 1 + h
    return None


def skip_char_or_lifetime(s, i):
    """s[i] == "'" ; return index after the char literal or lifetime."""
    n = len(s)
    if i + 1 < n and s[i + 1] == '\\':
        # escaped char literal
        j = i + 2
        while j < n and s[j] != "'":
            j += 1
        return j + 1
    if i + 2 < n and s[i + 2] == "'":
        return i + 3  # 'x'
    # multi-byte char literal like 'é' is still one python char -> handled above.
    m = IDENT.match(s, i + 1)
    if m:
        return m.end()  # lifetime / label
    return i + 1


def skip_comment(s, i):
    """s[i:i+2] is // or /* ; returns index after the comment."""
    if s.startswith('//', i):
        j = s.find('\n', i)
        return len(s) if j < 0 else j + 1
    assert s.startswith('/*', i)
    depth = 1
    j = i + 2
    n = len(s)
    while j < n and depth:
        if s.startswith('/*', j):
            depth += 1
            j += 2
        elif s.startswith('*/', j):
            depth -= 1
            j += 2
        else:
            j += 1
    return j


def next_code(s, i, end=None):
    """Advance from i over one lexical element.  Returns (kind, start, stop)
    where kind in {'ws','comment','str','char','ident','punct','num'}."""
    n = len(s) if end is None else end
    if i >= n:
        return None
    c = s[i]
    if c.isspace():
        j = i
        while j < n and s[j].isspace():
            j += 1
        return ('ws', i, j)
    if s.startswith('//', i) or s.startswith('/*', i):
        return ('comment', i, skip_comment(s, i))
    if c == '"':
        return ('str', i, skip_string(s, i))
    if c == "'":
        j = skip_char_or_lifetime(s, i)
        return ('char', i, j)
    if c == 'b' and i + 1 < n and s[i + 1] == '"':
        return ('str', i, skip_string(s, i + 1))
    if c == 'b' and i + 1 < n and s[i + 1] == "'":
        return ('char', i, skip_char_or_lifetime(s, i + 1))
    if c == 'r' or (c == 'b' and i + 1 < n and s[i + 1] == 'r'):
        k = i + 1 if c == 'r' else i + 2
        if k < n and s[k] in '#"':
            r = skip_raw_string(s, k - 1)
            if r is not None:
                return ('str', i, r)
    m = IDENT.match(s, i)
    if m:
        return ('ident', i, m.end())
    if c.isdigit():
        j = i
        while j < n and (s[j].isalnum() or s[j] == '_'):
            j += 1
        # floats are not used in this crate; `0..n` must keep `..` separate
        return ('num', i, j)
    return ('punct', i, i + 1)


def tokens(s, start=0, end=None, keep_ws=False):
    i = start
    n = len(s) if end is None else end
    while i < n:
        t = next_code(s, i, n)
        if t is None:
            break
        if keep_ws or t[0] not in ('ws', 'comment'):
            yield t
        i = t[2]


OPEN = {'(': ')', '[': ']', '{': '}'}
CLOSE = {')': '(', ']': '[', '}': '{'}


def match_delim(s, i):
    """s[i] is an opening delimiter; return index of the matching closer."""
    assert s[i] in OPEN, (s[i], s[max(0, i - 30):i + 30])
    stack = []
    for kind, a, b in tokens(s, i):
        if kind != 'punct':
            continue
        c = s[a]
        if c in OPEN:
            stack.append(c)
        elif c in CLOSE:
            if not stack or stack[-1] != CLOSE[c]:
                raise ScanError('mismatched delimiter at %d' % a)
            stack.pop()
            if not stack:
                return a
    raise ScanError('unterminated delimiter at %d' % i)


class Item:
    """One item of a module / impl / trait body."""
    __slots__ = ('kind', 'name', 'start', 'end', 'attrs_start', 'header_start',
                 'body_open', 'body_close', 'text', 'header', 'children', 'src')

    def __init__(self, **kw):
        for k in self.__slots__:
            setattr(self, k, kw.get(k))

    def __repr__(self):
        return 'Item(%s %s)' % (self.kind, self.name)


ITEM_KW = ('mod', 'fn', 'struct', 'enum', 'union', 'impl', 'trait', 'const',
           'static', 'use', 'type', 'macro_rules', 'extern', 'macro')
QUALS = ('pub', 'unsafe', 'async', 'default', 'extern', 'const')


def _angle_aware_header_end(s, i, end):
    """From i (start of an item header, after attributes) find the first `{`
    or `;` that is at nesting depth 0 with respect to () [] and <>.  `->` and
    `=>` are not treated as closing angle brackets.  For `const`/`static`
    items with an initializer, braces belong to the initializer, so the caller
    handles '=' itself."""
    depth = 0
    angle = 0
    prev = ''
    for kind, a, b in tokens(s, i, end):
        if kind != 'punct':
            prev = ''
            continue
        c = s[a]
        if c in '([':
            depth += 1
        elif c in ')]':
            depth -= 1
        elif c == '<' and depth == 0:
            angle += 1
        elif c == '>' and depth == 0 and prev not in ('-', '='):
            if angle > 0:
                angle -= 1
        elif c in '{;' and depth == 0 and angle == 0:
            return a
        elif c == '{' and depth == 0 and angle > 0:
            # const generic block argument `{ N + 1 }`: skip it
            pass
        prev = c
    raise ScanError('item header without end at %d: %r' % (i, s[i:i + 80]))


def parse_items(s, start, end):
    """Split s[start:end] (the inside of a mod/impl/trait body, or the whole
    file) into items."""
    items = []
    i = start
    while True:
        # skip whitespace
        while i < end and s[i].isspace():
            i += 1
        if i >= end:
            break
        item_start = i
        # attributes and doc comments
        while True:
            while i < end and s[i].isspace():
                i += 1
            if s.startswith('//', i) or s.startswith('/*', i):
                i = skip_comment(s, i)
                continue
            if s.startswith('#[', i) or s.startswith('#![', i):
                j = s.index('[', i)
                i = match_delim(s, j) + 1
                continue
            break
        if i >= end:
            break
        header_start = i
        if s[i] == ';':  # stray semicolon
            i += 1
            continue
        # collect leading keywords
        j = i
        kind = None
        name = None
        while True:
            t = next_code(s, j, end)
            while t and t[0] in ('ws', 'comment'):
                j = t[2]
                t = next_code(s, j, end)
            if not t or t[0] != 'ident':
                break
            w = s[t[1]:t[2]]
            if w == 'pub':
                j = t[2]
                # pub(crate) / pub(super) / pub(in path)
                k = j
                while k < end and s[k].isspace():
                    k += 1
                if k < end and s[k] == '(':
                    j = match_delim(s, k) + 1
                continue
            if w == 'extern':
                # extern crate x; / extern "C" fn
                j = t[2]
                t2 = next_code(s, j, end)
                while t2 and t2[0] in ('ws',):
                    j = t2[2]
                    t2 = next_code(s, j, end)
                if t2 and t2[0] == 'str':
                    j = t2[2]
                    continue
                if t2 and s[t2[1]:t2[2]] == 'crate':
                    kind = 'extern_crate'
                    break
                continue
            if w in ('unsafe', 'async', 'default'):
                j = t[2]
                continue
            if w == 'const':
                # `const fn` vs `const NAME`
                k = t[2]
                t2 = next_code(s, k, end)
                while t2 and t2[0] == 'ws':
                    k = t2[2]
                    t2 = next_code(s, k, end)
                w2 = s[t2[1]:t2[2]] if t2 else ''
                if w2 in ('fn', 'unsafe', 'async', 'extern'):
                    j = t[2]
                    continue
                kind = 'const'
                name = w2
                break
            if w in ITEM_KW:
                kind = w
                k = t[2]
                if w == 'macro_rules':
                    # macro_rules! name
                    m = re.compile(r'\s*!\s*([A-Za-z_][A-Za-z0-9_]*)').match(s, k)
                    name = m.group(1) if m else None
                elif w in ('impl', 'use'):
                    name = None
                else:
                    m = re.compile(r'\s*([A-Za-z_][A-Za-z0-9_]*)').match(s, k)
                    name = m.group(1) if m else None
                    if w == 'static' and name == 'mut':
                        m = re.compile(r'\s*mut\s+([A-Za-z_][A-Za-z0-9_]*)').match(s, k)
                        name = m.group(1)
                break
            break
        if kind is None:
            raise ScanError('cannot classify item at %d: %r' % (i, s[i:i + 120]))
        body_open = body_close = None
        if kind in ('const', 'static', 'use', 'type', 'extern_crate'):
            # ends at the first ';' at depth 0 (all delimiters)
            k = header_start
            depth = 0
            item_end = None
            for tk, a, b in tokens(s, k, end):
                if tk != 'punct':
                    continue
                c = s[a]
                if c in OPEN:
                    depth += 1
                elif c in CLOSE:
                    depth -= 1
                elif c == ';' and depth == 0:
                    item_end = a + 1
                    break
            if item_end is None:
                raise ScanError('unterminated %s item at %d' % (kind, i))
        elif kind in ('macro_rules', 'macro'):
            k = header_start
            item_end = None
            for tk, a, b in tokens(s, k, end):
                if tk == 'punct' and s[a] in OPEN:
                    c = match_delim(s, a)
                    item_end = c + 1
                    if s[a] != '{':
                        while item_end < end and s[item_end].isspace():
                            item_end += 1
                        if item_end < end and s[item_end] == ';':
                            item_end += 1
                    break
        else:
            h = _angle_aware_header_end(s, header_start, end)
            if s[h] == ';':
                item_end = h + 1
            else:
                body_open = h
                body_close = match_delim(s, h)
                item_end = body_close + 1
        it = Item(kind=kind, name=name, start=item_start, end=item_end,
                  attrs_start=item_start, header_start=header_start,
                  body_open=body_open, body_close=body_close, src=s)
        it.text = s[item_start:item_end]
        it.header = (s[header_start:body_open] if body_open is not None
                     else s[header_start:item_end])
        if kind in ('mod', 'impl', 'trait') and body_open is not None:
            it.children = parse_items(s, body_open + 1, body_close)
        items.append(it)
        i = item_end
    return items


def norm_ws(t):
    return re.sub(r'\s+', ' ', t).strip()


def impl_header_info(header):
    """Return (generics, trait_or_None, self_ty, where_clause) for an impl header
    text (from `impl` up to but excluding `{`)."""
    h = norm_ws(header)
    assert h.startswith('impl') or h.startswith('unsafe impl'), h
    h = h[h.index('impl') + 4:].lstrip()
    generics = ''
    if h.startswith('<'):
        # find matching '>' (angle depth, ignoring ->)
        d = 0
        for k, c in enumerate(h):
            if c == '<':
                d += 1
            elif c == '>' and h[k - 1] not in '-=':
                d -= 1
                if d == 0:
                    generics = h[:k + 1]
                    h = h[k + 1:].lstrip()
                    break
    where = ''
    # split off where clause at depth 0
    d = 0
    idx = None
    for m in re.finditer(r'[<>()\[\]]|\bwhere\b', h):
        t = m.group(0)
        if t in '<([':
            d += 1
        elif t in ')]' or (t == '>' and h[m.start() - 1] not in '-='):
            d -= 1
        elif t == 'where' and d == 0:
            idx = m.start()
            break
    if idx is not None:
        where = h[idx:].strip()
        h = h[:idx].strip()
    # split `Trait for Type`
    d = 0
    trait = None
    self_ty = h
    for m in re.finditer(r'[<>()\[\]]|\bfor\b', h):
        t = m.group(0)
        if t in '<([':
            d += 1
        elif t in ')]' or (t == '>' and h[m.start() - 1] not in '-='):
            d -= 1
        elif t == 'for' and d == 0:
            trait = h[:m.start()].strip()
            self_ty = h[m.end():].strip()
            break
    return generics, trait, self_ty, where


if __name__ == '__main__':
    import sys
    src = open(sys.argv[1]).read()
    items = parse_items(src, 0, len(src))

    def dump(items, ind=0):
        for it in items:
            print(' ' * ind + it.kind, it.name or norm_ws(it.header)[:90])
            if it.children:
                dump(it.children, ind + 2)
    dump(items)
