#!/usr/bin/env python3
"""The desugaring rules (DESIGN.md §3.2).

Every rule is a local, syntactic rewrite of a construct of the rustc-expanded
source into its Rust Reference definition, in the subset Verus accepts.  Each
function takes the text of one fn body (including the outer braces) and returns
(new_text, log) where log is a list of 'Rn: …' strings.  A rule never touches
an expression, constant, comparison or statement order outside its pattern.
Anything not covered is left alone; if Verus then rejects it the unit is
UNDECIDED (exit 2), never a verdict.
"""
import re
from rsparse import tokens, match_delim, next_code, ScanError, norm_ws

PANIC_CALL = re.compile(r'::core::panicking::(panic|panic_fmt|panic_explicit|unreachable_display|panic_display)\s*\(')


class RuleError(Exception):
    pass


def _skip_ws(s, i):
    while i < len(s) and s[i].isspace():
        i += 1
    return i


def _code_find(s, pat, start=0, end=None):
    """Yield match objects of regex `pat` that begin at a code position (not in
    a string/comment/char)."""
    end = len(s) if end is None else end
    rx = re.compile(pat) if isinstance(pat, str) else pat
    for kind, a, b in tokens(s, start, end):
        if kind in ('str', 'char'):
            continue
        m = rx.match(s, a)
        if m:
            yield m


def r1_debug_asserts(body, may_fail=(), panic_call='verif_panic()'):
    """R1:  if true { if !(C) { ::core::panicking::panic(..) }; }; ;   ->  if !(C) { verif_debug_panic() }
    R1': if !(C) { ::core::panicking::panic(..) }                     ->  if !(C) { verif_panic() }
    any other ::core::panicking::* call                               ->  verif_panic()
    """
    log = []
    out = []
    i = 0
    s = body
    rx = re.compile(r'if true \{')
    pos = 0
    res = []
    while True:
        m = None
        for mm in _code_find(s, rx, pos):
            m = mm
            break
        if not m:
            break
        a = m.start()
        ob = m.end() - 1
        cb = match_delim(s, ob)
        inner = s[ob + 1:cb]
        im = re.match(r'\s*if !\(', inner)
        ok = False
        if not im:
            # rustc prints `debug_assert!(f(x))` as `if !f(x) {` (no parentheses around a call/path/unary condition)
            im2 = re.match(r'\s*if !', inner)
            if im2:
                c0 = ob + 1 + im2.end()
                jj = None
                depth = 0
                for k2, a2, b2 in tokens(s, c0, cb):
                    if k2 != 'punct':
                        continue
                    ch = s[a2]
                    if ch in '([':
                        depth += 1
                    elif ch in ')]':
                        depth -= 1
                    elif ch == '{' and depth == 0:
                        jj = a2
                        break
                if jj is not None:
                    im = im2
                    cond = s[c0:jj]
                    j = jj
        else:
            p_open = ob + 1 + im.end() - 1
            p_close = match_delim(s, p_open)
            cond = s[p_open + 1:p_close]
            j = _skip_ws(s, p_close + 1)
        if im:
            if s[j] == '{':
                jb = match_delim(s, j)
                blk = s[j + 1:jb]
                if PANIC_CALL.search(blk) and blk.count(';') == 0:
                    k = _skip_ws(s, jb + 1)
                    if s[k] == ';':
                        k = _skip_ws(s, k + 1)
                    if k == cb:
                        # swallow `;` and the stray `;` rustc prints after it
                        e = cb + 1
                        e2 = _skip_ws(s, e)
                        if e2 < len(s) and s[e2] == ';':
                            e = e2 + 1
                            e3 = _skip_ws(s, e)
                            if e3 < len(s) and s[e3] == ';':
                                e = e3 + 1
                        mf = [x for x in may_fail if norm_ws(x) in norm_ws(cond)]
                        if mf:
                            # a debug_assert! (never an invariant!) that the contract declares as a pure debug-build check:
                            # it may or may not be evaluated (debug vs release), so nothing is assumed and nothing required.
                            res.append((a, e, 'if verif_nondet_bool() && !(%s) { verif_panic() }' % cond.strip()))
                            log.append('R1m: debug_assert may fail (debug-build-only check) (%s)' % norm_ws(cond)[:80])
                        else:
                            res.append((a, e, 'if !(%s) { verif_debug_panic() }' % cond.strip()))
                            log.append('R1: debug_assert/invariant (%s)' % norm_ws(cond)[:80])
                        ok = True
                        pos = e
        if not ok:
            pos = m.end()
    s = _apply(s, res)
    # R1': remaining panics
    res = []
    for m in _code_find(s, PANIC_CALL):
        po = m.end() - 1
        pc = match_delim(s, po)
        res.append((m.start(), pc + 1, panic_call))
        log.append("R1': panic call -> %s" % panic_call)
    s = _apply(s, res)
    return s, log


def _apply(s, res):
    res = sorted(res)
    out = []
    last = 0
    for a, e, t in res:
        if a < last:
            raise RuleError('overlapping rewrites')
        out.append(s[last:a])
        out.append(t)
        last = e
    out.append(s[last:])
    return ''.join(out)


def _loop_headers(s):
    """Yield (kw, kw_start, body_open) for each loop keyword at a code position,
    in textual order.  Labels ('a: loop) are not used in this crate."""
    for kind, a, b in tokens(s):
        if kind != 'ident':
            continue
        w = s[a:b]
        if w not in ('for', 'while', 'loop'):
            continue
        # `for` in `impl X for Y` / HRTB cannot occur inside fn bodies we extract
        if w == 'loop':
            j = _skip_ws(s, b)
            if j < len(s) and s[j] == '{':
                yield (w, a, j)
            continue
        # header extends to first '{' at depth 0
        depth = 0
        bo = None
        for k2, a2, b2 in tokens(s, b):
            if k2 != 'punct':
                continue
            c = s[a2]
            if c in '([':
                depth += 1
            elif c in ')]':
                depth -= 1
            elif c == '{' and depth == 0:
                bo = a2
                break
        if bo is None:
            raise RuleError('loop without body at %d' % a)
        yield (w, a, bo)


def loop_headers(s):
    return list(_loop_headers(s))


_counter = [0]


def r_for_loops(body, hints=None):
    """R2/R3/R6: `for` loops -> `while` loops.
       for P in A..B {            -> index loop over the range           (R2)
       for &X in E.iter() {       -> index loop over slice E, X = E[k]   (R3)
       for X in E.iter().copied() -> same                                (R3)
       for X in E.iter() {        -> X = &E[k]                           (R3)
       for X in E {  (E a plain place expression: slice/array reference) -> X = &E[k]  (R3)
       for (I, X) in E.iter().enumerate() { -> I = k, X = &E[k]          (R6)
       for X in [E; 1] {          -> one-trip loop                        (R9)
       for X in &mut A[lo..hi] {  -> index loop, X ↦ A[k]                 (R10; X.f rewritten textually)
    hints: dict ordinal -> 'iterator' to request the generic Iterator desugaring
           (loop { match it.next() { Some(P) => body, None => break } }) (R3i)
    Loop ordinals (1-based, textual order over for/while/loop) are preserved:
    every `for` becomes exactly one `while`/`loop` at the same ordinal.
    """
    hints = hints or {}
    log = []
    s = body
    # process from the last loop to the first so that offsets stay valid
    hdrs = loop_headers(s)
    for ordinal in range(len(hdrs), 0, -1):
        kw, a, bo = loop_headers(s)[ordinal - 1]
        if kw != 'for':
            continue
        hdr = s[a + 3:bo]
        m = re.match(r'\s*(.+?)\s+in\s+(.+?)\s*$', hdr, re.S)
        if not m:
            raise RuleError('cannot split for header: %r' % hdr)
        pat, expr = m.group(1), norm_ws(m.group(2))
        bc = match_delim(s, bo)
        inner = s[bo + 1:bc]
        n = ordinal
        it, end_, sl = '__it%d' % n, '__end%d' % n, '__s%d' % n
        hint = hints.get(ordinal)
        new = None
        if hint == 'iterator':
            new = ('let mut %s = %s; loop { match %s.next() { Some(%s) => {%s} None => { break; } } }'
                   % (it, expr, it, pat, inner))
            log.append('R3i: for %s in <Iterator> (loop %d)' % (norm_ws(pat), n))
        else:
            rm = _split_range(expr)
            if rm:
                lo, hi, incl = rm
                cmpop = '<=' if incl else '<'
                if incl:
                    raise RuleError('inclusive range for-loop not supported')
                new = ('let mut %s = %s; let %s = %s; while %s %s %s {let %s = %s; %s += 1;%s}'
                       % (it, lo, end_, hi, it, cmpop, end_, pat, it, it, inner))
                log.append('R2: for %s in %s..%s (loop %d)' % (norm_ws(pat), lo, hi, n))
            elif re.match(r'^\[(.+);\s*1\]$', expr):
                e = re.match(r'^\[(.+);\s*1\]$', expr).group(1)
                new = ('let mut %s: usize = 0; while %s < 1 {let %s = %s; %s += 1;%s}'
                       % (it, it, pat, e, it, inner))
                log.append('R9: for %s in [%s; 1] (loop %d)' % (norm_ws(pat), e, n))
            elif re.match(r'^&mut\s+(.+)\[(.+)\.\.(.+)\]$', expr):
                mm = re.match(r'^&mut\s+(.+)\[(.+)\.\.(.+)\]$', expr)
                arr, lo, hi = mm.group(1), mm.group(2), mm.group(3)
                p = pat.strip()
                if not re.match(r'^[A-Za-z_]\w*$', p):
                    raise RuleError('R10 needs a plain binding, got %r' % p)
                inner2 = re.sub(r'\b%s\b' % re.escape(p), '%s[%s]' % (arr, it + 'k'), inner)
                new = ('let mut %s: usize = %s; let %s: usize = %s; while %s < %s {let %sk = %s; %s += 1;%s}'
                       % (it, lo, end_, hi, it, end_, it, it, it, inner2))
                log.append('R10: for %s in &mut %s[%s..%s] (loop %d)' % (p, arr, lo, hi, n))
            else:
                em = re.match(r'^(.+)\.iter\(\)\.enumerate\(\)$', expr)
                if em:
                    pm = re.match(r'^\(\s*([A-Za-z_]\w*)\s*,\s*(&?)\s*([A-Za-z_]\w*)\s*\)$', pat.strip())
                    if not pm:
                        raise RuleError('R6 pattern %r' % pat)
                    iv, amp, xv = pm.groups()
                    bind = ('let %s = %s; let %s = %s%s[%s];'
                            % (iv, it, xv, '' if amp else '&', sl, it))
                    src = em.group(1)
                    log.append('R6: for %s in %s.iter().enumerate() (loop %d)' % (norm_ws(pat), src, n))
                else:
                    cm = re.match(r'^(.+)\.iter\(\)\.copied\(\)$', expr)
                    im = re.match(r'^(.+)\.iter\(\)$', expr)
                    p = pat.strip()
                    if cm:
                        src = cm.group(1)
                        bind = 'let %s = %s[%s];' % (p, sl, it)
                    elif im:
                        src = im.group(1)
                        if p.startswith('&'):
                            bind = 'let %s = %s[%s];' % (p[1:].strip(), sl, it)
                        else:
                            bind = 'let %s = &%s[%s];' % (p, sl, it)
                    elif re.match(r'^&?[A-Za-z_][\w\.]*$', expr):
                        src = expr
                        if p.startswith('&'):
                            bind = 'let %s = %s[%s];' % (p[1:].strip(), sl, it)
                        else:
                            bind = 'let %s = &%s[%s];' % (p, sl, it)
                    else:
                        raise RuleError('no rule for `for %s in %s`' % (pat, expr))
                    log.append('R3: for %s in %s (loop %d)' % (norm_ws(pat), expr, n))
                new = ('let %s = %s; let mut %s: usize = 0; while %s < %s.len() {%s %s += 1;%s}'
                       % (sl, src, it, it, sl, bind, it, inner))
        s = s[:a] + new + s[bc + 1:]
    return s, log


def _split_range(expr):
    """Split `A..B` at depth 0.  Returns (A, B, inclusive) or None."""
    depth = 0
    i = 0
    n = len(expr)
    while i < n:
        c = expr[i]
        if c in '([{':
            depth += 1
        elif c in ')]}':
            depth -= 1
        elif c == '.' and depth == 0 and expr.startswith('..', i):
            lo = expr[:i].strip()
            if expr.startswith('..=', i):
                hi = expr[i + 3:].strip()
                return (lo, hi, True)
            hi = expr[i + 2:].strip()
            if lo and hi:
                return (lo, hi, False)
            return None
        i += 1
    return None


def r4_break_value(body):
    """R4: `let [mut] V[: T] = loop { … break E; … };`  ->  `let mut V[: T]; loop { … V = E; break; … }`
    Only `break E;` statements that belong to that loop (not to a nested loop) are rewritten."""
    log = []
    s = body
    while True:
        m = None
        for mm in _code_find(s, re.compile(r'let\s+(mut\s+)?([A-Za-z_]\w*)\s*(:\s*[^=;]+?)?\s*=\s*loop\s*\{')):
            m = mm
            break
        if not m:
            break
        var = m.group(2)
        ty = m.group(3) or ''
        bo = m.end() - 1
        bc = match_delim(s, bo)
        inner = s[bo + 1:bc]
        # rewrite breaks at loop-nesting depth 0 inside inner
        res = []
        nested = []  # (start,end) ranges of nested loops
        for kw, a, b0 in loop_headers(inner):
            nested.append((b0, match_delim(inner, b0)))
        for mm in _code_find(inner, re.compile(r'break\b')):
            p = mm.start()
            if any(x < p < y for x, y in nested):
                continue
            # expression up to ';' at depth 0
            j = mm.end()
            depth = 0
            e = None
            for k2, a2, b2 in tokens(inner, j):
                if k2 == 'punct':
                    c = inner[a2]
                    if c in '([{':
                        depth += 1
                    elif c in ')]}':
                        if depth == 0:
                            e = a2
                            break
                        depth -= 1
                    elif c == ';' and depth == 0:
                        e = a2
                        break
            val = inner[j:e].strip()
            if val == '':
                raise RuleError('R4: plain break inside value loop')
            if inner[e] == ';':
                res.append((p, e + 1, '{ %s = %s; break; }' % (var, val)))
            else:
                res.append((p, e, '{ %s = %s; break; }' % (var, val)))
        inner2 = _apply(inner, res)
        k = _skip_ws(s, bc + 1)
        if s[k] != ';':
            raise RuleError('R4: expected ; after loop value')
        # an attribute such as #[allow(unused_variables)] may precede the let: leave it
        new = 'let %s%s%s; loop {%s}' % ('mut ' if m.group(1) else '', var, ty.rstrip(), inner2)
        s = s[:m.start()] + new + s[k + 1:]
        log.append('R4: let %s = loop { … break v … } (%d breaks)' % (var, len(res)))
    return s, log


def r5_copied_iter(body):
    """R5: `let mut IT = S.iter().copied();` with uses `IT.next()`  ->
           `let mut IT = S.iter();` and `match IT.next() { Some(r) => Some(*r), None => None }`
       R5': the same with a trailing `.take(N)` (Copied<I>::take(N) yields the copies of I::take(N)'s items)
       R5'': the expression `E.iter().copied().next()` (E a place or sub-slice) ->
           `(match E.iter().next() { Some(r) => Some(*r), None => None })`"""
    log = []
    s = body
    res = []
    for m in _code_find(s, re.compile(r'([A-Za-z_][\w\.]*(?:\[[^\[\]]*\])?)\.iter\(\)\.copied\(\)\.next\(\)')):
        res.append((m.start(), m.end(), '(match %s.iter().next() { Some(__r) => Some(*__r), None => None })' % m.group(1)))
        log.append("R5'': %s.iter().copied().next()" % norm_ws(m.group(1)))
    s = _apply(s, res)
    for m in list(_code_find(s, re.compile(r'let\s+mut\s+([A-Za-z_]\w*)\s*=\s*([^;]+?)\.iter\(\)\.copied\(\)(\.take\([^()]*\))?\s*;'))):
        it = m.group(1)
        src = m.group(2)
        s2 = s[:m.start()] + 'let mut %s = %s.iter()%s;' % (it, src, m.group(3) or '') + s[m.end():]
        cnt = len(re.findall(r'\b%s\.next\(\)' % re.escape(it), s2))
        s2 = re.sub(r'\b%s\.next\(\)' % re.escape(it),
                    '(match %s.next() { Some(__r) => Some(*__r), None => None })' % it, s2)
        log.append('R5: %s = %s.iter().copied()%s (%d next() sites)' % (it, src.strip(), m.group(3) or '', cnt))
        return r5_copied_iter_more(s2, log)
    return s, log


def r5_copied_iter_more(s, log):
    s2, l2 = r5_copied_iter(s)
    return s2, log + l2


def r7_any_all(body):
    """R7: `E.iter().any(|&x| P)`  ->  block with an early-exit index loop whose result is `exists i. P[x:=E[i]]`;
           `.all` dually.  The loop carries a rule-generated invariant (checked by Verus like any other).
           E may also be a sub-slice `A[lo..hi]` / `A[lo..=hi]`; it is then bound by reference (`let __aN = &A[lo..=hi];`)."""
    log = []
    s = body
    while True:
        m = None
        for mm in _code_find(s, re.compile(r'([A-Za-z_][\w\.]*(?:\(\))?(?:\[[^\[\]]*\])?)\.iter\(\)\.(any|all)\(\s*(?:#\[inline\(always\)\]\s*)?\|\s*(&?)\s*([A-Za-z_]\w*)\s*\|')):
            m = mm
            break
        if not m:
            break
        src, which, amp, x = m.groups()
        po = s.index('(', m.start() + len(src) + len('.iter().') + len(which))
        if src.endswith(']'):
            src = '&' + norm_ws(src)   # R7 on a sub-slice `A[lo..hi]` / `A[lo..=hi]`: bind it by reference
        pc = match_delim(s, po)
        pred = s[m.end():pc].strip()
        _counter[0] += 1
        k = _counter[0]
        sv, kv, rv = '__a%d' % k, '__k%d' % k, '__r%d' % k
        xe = ('%s[%s]' % (sv, kv)) if amp else ('&%s[%s]' % (sv, kv))
        predj = re.sub(r'\b%s\b' % re.escape(x), '%s[__j]' % sv if amp else '(&%s[__j])' % sv, pred)
        if which == 'any':
            new = ('{ let %(a)s = %(src)s; let mut %(k)s: usize = 0; let mut %(r)s = false; '
                   'while %(k)s < %(a)s.len() invariant_except_break !%(r)s, invariant %(k)s <= %(a)s.len(), '
                   'forall|__j: int| 0 <= __j < %(k)s ==> !(%(pj)s), '
                   'ensures %(r)s <==> exists|__j: int| 0 <= __j < %(a)s.len() && (%(pj)s), '
                   'decreases %(a)s.len() - %(k)s '
                   '{ let %(x)s = %(xe)s; if %(p)s { %(r)s = true; break; } %(k)s += 1; } %(r)s }')
        else:
            new = ('{ let %(a)s = %(src)s; let mut %(k)s: usize = 0; let mut %(r)s = true; '
                   'while %(k)s < %(a)s.len() invariant_except_break %(r)s, invariant %(k)s <= %(a)s.len(), '
                   'forall|__j: int| 0 <= __j < %(k)s ==> (%(pj)s), '
                   'ensures %(r)s <==> forall|__j: int| 0 <= __j < %(a)s.len() ==> (%(pj)s), '
                   'decreases %(a)s.len() - %(k)s '
                   '{ let %(x)s = %(xe)s; if !(%(p)s) { %(r)s = false; break; } %(k)s += 1; } %(r)s }')
        new = new % {'a': sv, 'k': kv, 'r': rv, 'src': src, 'pj': predj, 'x': x, 'xe': xe, 'p': pred}
        s = s[:m.start()] + new + s[pc + 1:]
        log.append('R7: %s.iter().%s(|%s%s| …)' % (src, which, amp, x))
    return s, log



def r8_all_block(body):
    """R8: `E.iter().all(|&x| { STMTS })` / `E.iter().any(|&x| { STMTS })` / `E.iter().enumerate().all(|(i, &x)| { STMTS })`
    where the closure body is a block (possibly mutating captured locals) -> explicit early-exit index loop
    (definition of Iterator::all/any over a slice).  No invariant is generated: the contract supplies it (`loop N`).
    Result variable: __rN, index __kN, slice __aN (N = running counter, fixed per function in textual order)."""
    log = []
    s = body
    while True:
        m = None
        for mm in _code_find(s, re.compile(r'([A-Za-z_][\w\.]*(?:\(\))?)\.iter\(\)(\.enumerate\(\))?\.(any|all)\(\s*(?:#\[inline\(always\)\]\s*)?\|\s*([^|]*?)\s*\|\s*\{')):
            m = mm
            break
        if not m:
            break
        src, enum_, which, pat = m.groups()
        bo = m.end() - 1
        bc = match_delim(s, bo)
        blk = s[bo:bc + 1]
        # closing paren of .all(
        k = _skip_ws(s, bc + 1)
        if s[k] != ')':
            raise RuleError('R8: unexpected closure tail')
        _counter[0] += 1
        n = _counter[0]
        av, kv, rv = '__a%d' % n, '__k%d' % n, '__r%d' % n
        if enum_:
            pm = re.match(r'^\(\s*([A-Za-z_]\w*)\s*,\s*(&?)\s*([A-Za-z_]\w*)\s*\)$', pat)
            if not pm:
                raise RuleError('R8: enumerate pattern %r' % pat)
            iv, amp, xv = pm.groups()
            bind = 'let %s = %s; let %s = %s%s[%s];' % (iv, kv, xv, '' if amp else '&', av, kv)
        else:
            pm = re.match(r'^(&?)\s*([A-Za-z_]\w*)$', pat)
            if not pm:
                raise RuleError('R8: pattern %r' % pat)
            amp, xv = pm.groups()
            bind = 'let %s = %s%s[%s];' % (xv, '' if amp else '&', av, kv)
        if which == 'all':
            new = ('{ let %s = %s; let mut %s: usize = 0; let mut %s = true; while %s < %s.len() { %s let __c%d: bool = %s; %s += 1; if !__c%d { %s = false; break; } } %s }'
                   % (av, src, kv, rv, kv, av, bind, n, blk, kv, n, rv, rv))
        else:
            new = ('{ let %s = %s; let mut %s: usize = 0; let mut %s = false; while %s < %s.len() { %s let __c%d: bool = %s; %s += 1; if __c%d { %s = true; break; } } %s }'
                   % (av, src, kv, rv, kv, av, bind, n, blk, kv, n, rv, rv))
        s = s[:m.start()] + new + s[k + 1:]
        log.append('R8: %s.iter()%s.%s(|%s| {…}) -> loop (__a%d/__k%d/__r%d)' % (src, enum_ or '', which, pat, n, n, n))
    return s, log

def r15_enum_map_fold(body):
    """R15: `SRC.iter().enumerate().map(|(I, &V)| F).fold(INIT, |X, Y| G)`  ->  index loop (definition of
    enumerate / map / fold over a slice): acc = INIT; for k in 0..len { I = k; V = SRC[k]; y = F; acc = G[X:=acc, Y:=y] }.
    No invariant is generated: the contract supplies it (`loop N`).  Names: __faN (slice), __fkN (index), __faccN, __fyN."""
    log = []
    s = body
    rx = re.compile(r'([A-Za-z_][\w\.]*(?:\[[^\[\]]*\])?)\.iter\(\)\.enumerate\(\)\.map\(\s*\|\s*\(\s*([A-Za-z_]\w*)\s*,\s*(&?)\s*([A-Za-z_]\w*)\s*\)\s*\|')
    while True:
        m = None
        for mm in _code_find(s, rx):
            m = mm
            break
        if not m:
            break
        src, iv, amp, xv = m.groups()
        po = s.index('(', m.start() + len(src) + len('.iter().enumerate().map') - 1)
        po = s.index('(', s.index('.map', m.start() + len(src)))
        pc = match_delim(s, po)
        f_body = s[m.end():pc].strip()
        fm = re.match(r'\s*\.fold\(', s[pc + 1:])
        if not fm:
            raise RuleError('R15: enumerate().map(..) not followed by .fold(')
        fo = pc + 1 + fm.end() - 1
        fc = match_delim(s, fo)
        inner = s[fo + 1:fc]
        gm = re.match(r'^\s*([^,]+?)\s*,\s*\|\s*([A-Za-z_]\w*)\s*,\s*([A-Za-z_]\w*)\s*\|\s*(.*)$', inner, re.S)
        if not gm:
            raise RuleError('R15: cannot split fold arguments: %r' % inner)
        init, xa, ya, g_body = gm.group(1), gm.group(2), gm.group(3), gm.group(4).strip()
        _counter[0] += 1
        n = _counter[0]
        av, kv, accv, yv = '__fa%d' % n, '__fk%d' % n, '__facc%d' % n, '__fy%d' % n
        srcx = ('&' + src) if '[' in src else src
        new = ('{ let %s = %s; let mut %s: usize = 0; let mut %s = %s; while %s < %s.len() { let %s = %s; let %s = %s%s[%s]; '
               'let %s = %s; %s = { let %s = %s; let %s = %s; %s }; %s += 1; } %s }'
               % (av, srcx, kv, accv, init, kv, av, iv, kv, xv, '' if amp else '&', av, kv,
                  yv, f_body, accv, xa, accv, ya, yv, g_body, kv, accv))
        s = s[:m.start()] + new + s[fc + 1:]
        log.append('R15: %s.iter().enumerate().map(|(%s, %s%s)| …).fold(%s, |%s, %s| …) -> loop (%s/%s/%s)'
                   % (norm_ws(src), iv, amp, xv, norm_ws(init), xa, ya, av, kv, accv))
    return s, log


def r16_split_first(body):
    """R16: `if let Some((&X, R)) = E.split_first() {`  ->  `if E.len() > 0 { let X = E[0]; let R = &E[1..];`
    (definition of <[T]>::split_first for Copy elements; E must be a plain place expression; the else branch is untouched).
    Verus does not support the reference pattern `&X`."""
    log = []
    s = body
    rx = re.compile(r'if\s+let\s+Some\(\(\s*&\s*([A-Za-z_]\w*)\s*,\s*([A-Za-z_]\w*)\s*\)\)\s*=\s*([A-Za-z_][\w\.]*)\.split_first\(\)\s*\{')
    res = []
    for m in _code_find(s, rx):
        x, r, e = m.groups()
        res.append((m.start(), m.end(), 'if %s.len() > 0 { let %s = %s[0]; let %s = &%s[1..];' % (e, x, e, r, e)))
        log.append('R16: if let Some((&%s, %s)) = %s.split_first()' % (x, r, e))
    return _apply(s, res), log



def r13_strip_inner_attrs(body):
    """R13 (part): drop statement/expression attributes that have no run-time meaning."""
    log = []
    s = body
    res = []
    for m in _code_find(s, re.compile(r'#\[(allow|inline|rustfmt::skip|cfg_attr|doc|coverage|must_use|cold)\b')):
        j = s.index('[', m.start())
        e = match_delim(s, j) + 1
        res.append((m.start(), e, ''))
        log.append('R13: drop attribute %s' % norm_ws(s[m.start():e])[:60])
    return _apply(s, res), log


def r13_strip_macro_rules(body):
    """R13 (part): drop leftover inner `macro_rules! NAME { … }` definitions.  rustc's expansion has already
    expanded every use; the definitions that remain inside a fn body have no run-time meaning (and their
    text would otherwise be counted as loops / rejected by Verus)."""
    log = []
    s = body
    res = []
    last = -1
    for m in _code_find(s, re.compile(r'macro_rules\s*!\s*([A-Za-z_]\w*)\s*\{')):
        if m.start() < last:
            continue
        bo = m.end() - 1
        bc = match_delim(s, bo)
        res.append((m.start(), bc + 1, ''))
        last = bc + 1
        log.append('R13: drop leftover macro_rules! %s' % m.group(1))
    return _apply(s, res), log


def r18_debug_chain(body):
    """R18: `F.debug_struct(NAME).field(N1, A1)....field(Nk, Ak).finish()`  ->
    `{ let __dbg1 = A1; ... let __dbgk = Ak; verif_debug_finish(F) }`.
    The argument expressions are still evaluated, in order, so whatever can panic inside them (indexing, slicing, unwrap)
    remains an obligation; the builder calls themselves — core::fmt::DebugStruct::{field, finish} and the Debug impls they
    invoke on the already evaluated values — are replaced by an assumed-total function with an arbitrary fmt::Result
    (TRUSTED debug_builders_total)."""
    log = []
    s = body
    while True:
        ms = list(_code_find(s, re.compile(r'\b([A-Za-z_]\w*)\s*\.\s*debug_struct\s*\(')))
        if not ms:
            break
        m = ms[0]
        po = m.end() - 1
        k = match_delim(s, po) + 1
        args = []
        while True:
            k = _skip_ws(s, k)
            mf = re.compile(r'\.\s*(field|finish)\s*\(').match(s, k)
            if not mf:
                raise RuleError('R18: debug_struct chain is not .field(..)*.finish()')
            po2 = mf.end() - 1
            pc2 = match_delim(s, po2)
            if mf.group(1) == 'finish':
                if s[po2 + 1:pc2].strip():
                    raise RuleError('R18: finish() with arguments')
                k = pc2 + 1
                break
            inner = s[po2 + 1:pc2]
            # split at the first top-level comma
            d = 0
            cut = None
            for kind, a, b in tokens(inner):
                if kind != 'punct':
                    continue
                c = inner[a]
                if c in '([{':
                    d += 1
                elif c in ')]}':
                    d -= 1
                elif c == ',' and d == 0:
                    cut = a
                    break
            if cut is None:
                raise RuleError('R18: field() without two arguments')
            args.append(norm_ws(inner[cut + 1:]))
            k = pc2 + 1
        rep = '{ ' + ' '.join('let __dbg%d = %s;' % (n + 1, a) for n, a in enumerate(args)) + ' verif_debug_finish(%s) }' % m.group(1)
        s = s[:m.start()] + rep + s[k:]
        log.append('R18: debug_struct chain with %d fields -> argument evaluations + verif_debug_finish(%s)' % (len(args), m.group(1)))
    if not log:
        raise RuleError('R18: no debug_struct chain in the body')
    return s, log


def r19_strip_nested_items(body):
    """R19: drop the `struct` / `impl` items declared at the start of a fn body (local helper types).  They have no run-time
    effect where they are declared; every USE of them that remains in the statements must be removed by a declared
    substitution of the contract file, otherwise Verus rejects the unit (unknown name).  The dropped impl bodies are NOT
    verified (listed in the log)."""
    log = []
    s = body
    i = 1   # after the opening brace
    while True:
        j = i
        # skip whitespace, comments and outer attributes
        while True:
            k = _skip_ws(s, j)
            tk = next_code(s, k)
            if tk is None:
                break
            kind, a, b = tk
            if kind == 'comment':
                j = b
                continue
            if kind == 'punct' and s.startswith('#[', a):
                j = match_delim(s, s.index('[', a)) + 1
                continue
            j = a
            break
        m = re.compile(r'(struct|impl)\b').match(s, j)
        if not m:
            break
        # header end: first `{` or `;` outside () [] <>
        d = 0
        ang = 0
        end = None
        prev = ''
        for kind, a, b in tokens(s, j):
            if kind != 'punct':
                prev = ''
                continue
            c = s[a]
            if c in '([':
                d += 1
            elif c in ')]':
                d -= 1
            elif c == '<' and d == 0:
                ang += 1
            elif c == '>' and d == 0 and prev not in ('-', '=') and ang > 0:
                ang -= 1
            elif c == ';' and d == 0 and ang == 0:
                end = a + 1
                break
            elif c == '{' and d == 0 and ang == 0:
                end = match_delim(s, a) + 1
                break
            prev = c
        if end is None:
            raise RuleError('R19: nested item without end')
        log.append('R19: dropped nested item `%s` (NOT verified)' % norm_ws(s[j:min(end, j + 90)]).split('{')[0].strip()[:80])
        s = s[:i] + s[end:]
    if not log:
        raise RuleError('R19: no nested struct/impl items at the start of the body')
    return s, log


def r20_write_fmt(body, display_fn):
    """R20: `F.write_fmt(format_args!("lit {0} lit {1} …", A0, A1, …))` (what `write!(F, …)` expands to) -> the definition of
    core::fmt::write for plain `{}` / `{N}` placeholders: all arguments are evaluated first (by reference), then literal
    pieces and arguments are written in order, returning at the first error:
        { let __fa0 = &(A0); …  match F.write_str("lit") { Ok(_) => {}, Err(__e) => { return Err(__e); } }
          match __fa0.<display_fn>(F) { … } …  Ok(()) }
    `<display_fn>` is the name under which the contract file emits `<T as Display>::fmt` of the argument type (as_inherent).
    Placeholders with format specs (`{:>8}`, `{:?}`, named arguments) are REFUSED.  (TRUSTED fmt_write_semantics)"""
    log = []
    s = body
    ms = list(_code_find(s, re.compile(r'\b([A-Za-z_]\w*)\s*\.\s*write_fmt\s*\(\s*format_args\s*!\s*\(')))
    if not ms:
        raise RuleError('R20: no `F.write_fmt(format_args!(…))` in the body')
    for m in reversed(ms):
        po_inner = m.end() - 1
        pc_inner = match_delim(s, po_inner)
        k = _skip_ws(s, pc_inner + 1)
        if s[k] != ')':
            raise RuleError('R20: unexpected text after format_args!(…)')
        inner = s[po_inner + 1:pc_inner]
        # split top-level commas
        parts = []
        d = 0
        last = 0
        for kind, a, b in tokens(inner):
            if kind != 'punct':
                continue
            c = inner[a]
            if c in '([{':
                d += 1
            elif c in ')]}':
                d -= 1
            elif c == ',' and d == 0:
                parts.append(inner[last:a])
                last = a + 1
        parts.append(inner[last:])
        parts = [p.strip() for p in parts if p.strip()]
        lit = parts[0]
        args = parts[1:]
        if not (lit.startswith('"') and lit.endswith('"')) or '\\' in lit:
            raise RuleError('R20: format string is not a plain string literal')
        t = lit[1:-1]
        pieces = []      # ('lit', text) | ('arg', index)
        cur = ''
        i = 0
        nxt = 0
        while i < len(t):
            c = t[i]
            if c == '{':
                if t.startswith('{{', i):
                    cur += '{'
                    i += 2
                    continue
                j = t.index('}', i)
                spec = t[i + 1:j]
                if spec == '':
                    idx = nxt
                    nxt += 1
                elif spec.isdigit():
                    idx = int(spec)
                else:
                    raise RuleError('R20: placeholder {%s} is not a plain positional one' % spec)
                if cur:
                    pieces.append(('lit', cur))
                    cur = ''
                pieces.append(('arg', idx))
                i = j + 1
                continue
            if c == '}':
                if t.startswith('}}', i):
                    cur += '}'
                    i += 2
                    continue
                raise RuleError('R20: stray } in the format string')
            cur += c
            i += 1
        if cur:
            pieces.append(('lit', cur))
        if any(k == 'arg' and v >= len(args) for k, v in pieces):
            raise RuleError('R20: placeholder without argument')
        f = m.group(1)
        out = ['{ /*R20_write_fmt*/']
        for n, a in enumerate(args):
            out.append('let __fa%d = &(%s);' % (n, a))
        for kind, v in pieces:
            if kind == 'lit':
                out.append('match %s.write_str("%s") { Ok(_) => {}, Err(__e) => { return Err(__e); } }' % (f, v))
            else:
                out.append('match __fa%d.%s(%s) { Ok(_) => {}, Err(__e) => { return Err(__e); } }' % (v, display_fn, f))
        out.append('Ok(()) }')
        s = s[:m.start()] + ' '.join(out) + s[k + 1:]
        log.append('R20: write_fmt(format_args!(%s, %d args)) -> %d sequential writes via write_str / %s' % (lit, len(args), len(pieces), display_fn))
    return s, log


def ptr_model(body, arr, elem, names):
    """R17: raw pointers into ONE array, modelled as element indices.

    Applies to a body in which every raw pointer is derived from `<arr>.as_mut_ptr()` by `.add(n)` and is only
    dereferenced as `(*p)`, compared with another such pointer, or copied.  Rewrite:
        <arr>.as_mut_ptr()          ->  0usize
        let mut p: *mut <elem>;     ->  let mut p: usize;
        p.add(n)                    ->  verif_ptr_add(p, n, <arr>.len())   (requires p + n <= len: the safety condition
                                                                            of <*mut T>::add, in bounds or one past the end)
        (*p)                        ->  <arr>[p]                           (Verus' index obligation p < len: the
                                                                            dereference must be inside the array)
    Pointer comparisons (==, >=, ...) become index comparisons (same allocation, so they agree).
    Everything else that could produce or use a pointer is REFUSED (RuleError => the unit is undecided), so the model
    cannot silently cover an operation it does not describe.  Not modelled (TRUSTED ptr_index_model): the aliasing
    discipline of the Rust abstract machine (that no reference to <arr> is created while the raw pointers are live);
    the body is checked not to name <arr> anywhere else."""
    log = []
    s = body
    pn = '|'.join(re.escape(n) for n in names)
    arr_rx = re.escape(arr).replace(r'\.', r'\s*\.\s*')
    sites = list(_code_find(s, re.compile(arr_rx + r'\s*\.\s*as_mut_ptr\s*\(\s*\)')))
    if not sites:
        raise RuleError('R17: no `%s.as_mut_ptr()` in the body' % arr)
    others = [m for m in _code_find(s, re.compile(arr_rx + r'\b')) if not any(m.start() == t.start() for t in sites)]
    if others:
        raise RuleError('R17: the body names %s outside of `.as_mut_ptr()` (%d places): raw pointers and references to the '
                        'same array would be mixed' % (arr, len(others)))
    res = [(m.start(), m.end(), '0usize') for m in sites]
    s = _apply(s, res)
    log.append('R17: %s.as_mut_ptr() -> index 0 (x%d); pointers %s are element indices into %s' % (arr, len(sites), ' '.join(names), arr))
    s, c = re.subn(r':\s*\*\s*mut\s+' + re.escape(elem) + r'\b', ': usize', s)
    log.append('R17: `*mut %s` -> usize x%d' % (elem, c))
    # p.add(n)
    cnt = 0
    while True:
        ms = list(_code_find(s, re.compile(r'\b(%s)\s*\.\s*add\s*\(' % pn)))
        if not ms:
            break
        m = ms[0]
        po = m.end() - 1
        pc = match_delim(s, po)
        s = s[:m.start()] + 'verif_ptr_add(%s, %s, %s.len())' % (m.group(1), s[po + 1:pc].strip(), arr) + s[pc + 1:]
        cnt += 1
    log.append('R17: p.add(n) -> verif_ptr_add(p, n, %s.len()) x%d' % (arr, cnt))
    s, c = re.subn(r'\(\s*\*\s*(%s)\s*\)' % pn, lambda m: '%s[%s]' % (arr, m.group(1)), s)
    log.append('R17: (*p) -> %s[p] x%d' % (arr, c))
    # refusals
    for rx, what in ((r'\*\s*(?:mut|const)\b', 'a raw-pointer type'), (r'\bas_(?:mut_)?ptr\b', 'as_ptr/as_mut_ptr'),
                     (r'\b(?:offset|wrapping_add|wrapping_sub|wrapping_offset|offset_from|byte_add|cast|read|write|read_volatile|'
                      r'write_volatile|copy_to|copy_from|swap|replace|as_ref|as_mut|add|sub)\s*\(', None),
                     (r'\b(?:null_mut|null|addr_of_mut|addr_of|transmute|from_raw_parts(?:_mut)?|NonNull)\b', 'a pointer constructor'),
                     (r'&\s*raw\b', 'a raw borrow')):
        for m in _code_find(s, re.compile(rx)):
            if what is None:
                # a method call: only refused when the receiver is one of the pointers
                pre = s[:m.start()].rstrip()
                if not (pre.endswith('.') and re.search(r'\b(%s)\s*\.$' % pn, pre)):
                    continue
                raise RuleError('R17: unmodelled pointer method `%s` on %s' % (m.group(0), re.search(r'\b(%s)\s*\.$' % pn, pre).group(1)))
            raise RuleError('R17: the body still contains %s (`%s`) after the rewrite' % (what, s[m.start():m.start() + 30].split('\n')[0]))
    for m in _code_find(s, re.compile(r'\*\s*(%s)\b' % pn)):
        pre = s[:m.start()].rstrip()
        if pre and (pre[-1].isalnum() or pre[-1] in '_)]'):
            raise RuleError('R17: a pointer is used as a factor of a multiplication')
        raise RuleError('R17: dereference `%s` not of the form (*p)' % norm_ws(m.group(0)))
    # every definition of a pointer is a copy of a pointer or a verif_ptr_add
    for m in _code_find(s, re.compile(r'(?<![=!<>+\-*/&|^%%])\b(%s)\s*(?::\s*usize\s*)?=(?!=)' % pn)):
        semi = s.index(';', m.end())
        rhs = norm_ws(s[m.end():semi])
        if not re.match(r'^(?:0usize|(?:%s)|verif_ptr_add\((?:%s), .*\))$' % (pn, pn), rhs):
            raise RuleError('R17: pointer %s is assigned `%s`, which is neither a modelled pointer nor p.add(n)' % (m.group(1), rhs[:60]))
    for m in _code_find(s, re.compile(r'\b(%s)\s*(?:\+=|-=|\*=)' % pn)):
        raise RuleError('R17: compound assignment on pointer %s' % m.group(1))
    return s, log


def apply_all(body, opts=None):
    opts = opts or {}
    log = []
    s = body
    _counter[0] = 0
    s, l = r13_strip_inner_attrs(s)
    log += l
    s, l = r13_strip_macro_rules(s)
    log += l
    s, l = r1_debug_asserts(s, opts.get('may_fail', ()), opts.get('panic_call', 'verif_panic()'))
    log += l
    for f in (r4_break_value, r5_copied_iter, r15_enum_map_fold, r16_split_first, r8_all_block, r7_any_all):
        s, l = f(s)
        log += l
    s, l = r_for_loops(s, opts.get('loop_hints'))
    log += l
    return s, log


SELFTEST = [
    # (rule function, input, expected output fragment(s))
    (r1_debug_asserts,
     '{ if true {\n if !(len < N) {\n ::core::panicking::panic("assertion failed: len < N")\n };\n };\n ;\n x }',
     ['{ if !(len < N) { verif_debug_panic() }\n x }']),
    (r1_debug_asserts,
     '{ if true {\n if !self.is_valid() {\n ::core::panicking::panic("assertion failed: self.is_valid()")\n };\n };\n x }',
     ['{ if !(self.is_valid()) { verif_debug_panic() }\n x }']),
    (r1_debug_asserts,
     '{ if true {\n if !!self.is_equiv(other) {\n ::core::panicking::panic("assertion failed")\n };\n };\n x }',
     ['{ if !(!self.is_equiv(other)) { verif_debug_panic() }\n x }']),
    (r1_debug_asserts,
     '{ if !(a <= b) { ::core::panicking::panic("assertion failed") }; y }',
     ['if !(a <= b) { verif_panic() }; y']),
    (r1_debug_asserts,
     '{ let s = "if true {"; z }',
     ['{ let s = "if true {"; z }']),
    (lambda b: r_for_loops(b),
     '{ for i in 0..n as usize { f(i); continue; } }',
     ['let mut __it1 = 0; let __end1 = n as usize; while __it1 < __end1 {let i = __it1; __it1 += 1; f(i); continue; }']),
    (lambda b: r_for_loops(b),
     '{ for &ch in buf.iter() { g(ch); } }',
     ['let __s1 = buf; let mut __it1: usize = 0; while __it1 < __s1.len() {let ch = __s1[__it1]; __it1 += 1; g(ch); }']),
    (lambda b: r_for_loops(b),
     '{ for (i, idx) in hash.iter().enumerate() { buf[i] = T[*idx as usize]; } }',
     ['let i = __it1; let idx = &__s1[__it1];']),
    (r4_break_value,
     '{ let has = loop { if a { break true; } while c { break; } if b { x; } else { break false; } }; has }',
     ['let has; loop { if a { { has = true; break; } } while c { break; } if b { x; } else { { has = false; break; } } } has }']),
    (r8_all_block,
     '{ let ok = self.representation().iter().all(#[inline(always)] |&pos| { let v = (total & pos) == 0; total |= pos; v }); ok }',
     ['let __a1 = self.representation(); let mut __k1: usize = 0; let mut __r1 = true; while __k1 < __a1.len() { let pos = __a1[__k1]; let __c1: bool = { let v = (total & pos) == 0; total |= pos; v }; __k1 += 1; if !__c1 { __r1 = false; break; } } __r1 }']),
    (r7_any_all,
     '{ if unlikely(blockhash[start +\n 1..=end].iter().any(|x| *x != ch)) { return false; } true }',
     ['= &blockhash[start + 1..=end]; let mut __k', 'forall|__j: int| 0 <= __j < __k', '!(*(&__a']),
    (lambda b: (_counter.__setitem__(0, 0), r15_enum_map_fold(b))[1],
     '{ let h = bh[..N - 1].iter().enumerate().map(|(i, &value)| { (value as u64) << (6 * (5 - i) as u32) }).fold(0u64, |x, y| x | y); h }',
     ['let __fa1 = &bh[..N - 1]; let mut __fk1: usize = 0; let mut __facc1 = 0u64; while __fk1 < __fa1.len() { let i = __fk1; let value = __fa1[__fk1]; let __fy1 = { (value as u64) << (6 * (5 - i) as u32) }; __facc1 = { let x = __facc1; let y = __fy1; x | y }; __fk1 += 1; } __facc1 }']),
    (r16_split_first,
     '{ if let Some((&value, rest)) = self.v.split_first() { self.v = rest; Some(value) } else { None } }',
     ['{ if self.v.len() > 0 { let value = self.v[0]; let rest = &self.v[1..]; self.v = rest; Some(value) } else { None } }']),
    (r5_copied_iter,
     '{ let mut iter = bytes.iter().copied(); raw = iter.next(); }',
     ['let mut iter = bytes.iter();', 'raw = (match iter.next() { Some(__r) => Some(*__r), None => None });']),
    (r5_copied_iter,
     '{ let mut iter = bytes.iter().copied().take(N); raw = iter.next(); if e { raw = bytes[index..].iter().copied().next(); } }',
     ['let mut iter = bytes.iter().take(N);', 'raw = (match iter.next() { Some(__r) => Some(*__r), None => None });',
      'raw = (match bytes[index..].iter().next() { Some(__r) => Some(*__r), None => None });']),
    (r13_strip_macro_rules,
     '{ let mut i = s; macro_rules! bh_loop_2 { ($block : block) => { loop { $block; i += 1; if i >= e { break; } } }; } macro_rules! bh_curr { () => { c [i] } } loop { f(i); } }',
     ['{ let mut i = s; loop { f(i); } }']),
    (lambda b: ptr_model(b, 'self.0.ctx', 'Ctx', ['bh', 'r0', 'r1', 'nx']),
     '{ let bh = self.0.ctx.as_mut_ptr(); let mut r0 = bh.add(self.0.s); let mut r1 = bh.add(self.0.e); let mut bh: *mut Ctx; let mut nx: *mut Ctx; bh = r0; loop { nx = bh.add(1); (*bh).h.update(ch); (*nx).v = (*bh).v; r1 = r1.add(1); bh = nx; if bh >= r1 { break; } } }',
     ['{ let bh = 0usize; let mut r0 = verif_ptr_add(bh, self.0.s, self.0.ctx.len()); let mut r1 = verif_ptr_add(bh, self.0.e, self.0.ctx.len()); let mut bh: usize; let mut nx: usize; bh = r0; loop { nx = verif_ptr_add(bh, 1, self.0.ctx.len()); self.0.ctx[bh].h.update(ch); self.0.ctx[nx].v = self.0.ctx[bh].v; r1 = verif_ptr_add(r1, 1, self.0.ctx.len()); bh = nx; if bh >= r1 { break; } } }']),
    (lambda b: r20_write_fmt(b, 'fmt_display'),
     '{ f.write_fmt(format_args!("{{{0}|{1}}}", self.norm_hash, self.to_raw_form())) }',
     ['{ { /*R20_write_fmt*/ let __fa0 = &(self.norm_hash); let __fa1 = &(self.to_raw_form()); match f.write_str("{") { Ok(_) => {}, Err(__e) => { return Err(__e); } } match __fa0.fmt_display(f) { Ok(_) => {}, Err(__e) => { return Err(__e); } } match f.write_str("|") { Ok(_) => {}, Err(__e) => { return Err(__e); } } match __fa1.fmt_display(f) { Ok(_) => {}, Err(__e) => { return Err(__e); } } match f.write_str("}") { Ok(_) => {}, Err(__e) => { return Err(__e); } } Ok(()) } }']),
    (r19_strip_nested_items,
     '{ /// doc\n struct E(u8); struct V<\'a, const N: usize> { block: &\'a [u8; N], } impl<\'a, const N: usize> V<\'a, N> { pub fn new(b: &\'a [u8; N]) -> Self { Self { block: b } } } impl core::fmt::Debug for E { fn fmt(&self, f: &mut F) -> R { if self.0 != 0 { a } else { b } } } if self.is_valid() { x } else { y } }',
     ['{ if self.is_valid() { x } else { y } }']),
    (r18_debug_chain,
     '{ if v { f.debug_struct("X").field("a", &Self::A).field("s", &core::str::from_utf8(&b[..n as usize]).unwrap()).finish() } else { f.debug_struct("X").field("i", &true).finish() } }',
     ['{ if v { { let __dbg1 = &Self::A; let __dbg2 = &core::str::from_utf8(&b[..n as usize]).unwrap(); verif_debug_finish(f) } } else { { let __dbg1 = &true; verif_debug_finish(f) } } }']),
    (lambda b: r_for_loops(b),
     '{ for ch in [ch; 1] { g(ch); continue; } }',
     ['let mut __it1: usize = 0; while __it1 < 1 {let ch = ch; __it1 += 1; g(ch); continue; }']),
    (lambda b: r_for_loops(b),
     '{ for bh1 in &mut self.0.bh_context[self.0.bhidx_start..self.0.bhidx_end] { bh1.h_full.update_by_byte(ch); } }',
     ['let mut __it1: usize = self.0.bhidx_start; let __end1: usize = self.0.bhidx_end; while __it1 < __end1 {let __it1k = __it1; __it1 += 1; self.0.bh_context[__it1k].h_full.update_by_byte(ch); }']),
]


def selftest():
    bad = 0
    for f, src, exps in SELFTEST:
        out, _ = f(src)
        for e in exps:
            if norm_ws(e) not in norm_ws(out):
                bad += 1
                print('SELFTEST FAIL\n  in : %s\n  out: %s\n  exp: %s' % (src, out, e))
    for srcbad in ('{ let bh = self.0.ctx.as_mut_ptr(); let x = *bh; }',
                   '{ let bh = self.0.ctx.as_mut_ptr(); let q = bh.offset(1); }',
                   '{ let bh = self.0.ctx.as_mut_ptr(); self.0.ctx[0].v = 1; }',
                   '{ let bh = self.0.ctx.as_mut_ptr(); let mut nx: *mut Ctx; nx = other(); }',
                   '{ let bh = self.0.ctx.as_mut_ptr(); let nx = self.1.as_mut_ptr(); }'):
        try:
            ptr_model(srcbad, 'self.0.ctx', 'Ctx', ['bh', 'nx'])
            bad += 1
            print('SELFTEST FAIL: R17 accepted %s' % srcbad)
        except RuleError:
            pass
    for srcbad in ('{ f.write_fmt(format_args!("{:>8}", x)) }', '{ f.write_fmt(format_args!("{:?}", x)) }', '{ f.write_fmt(format_args!("{name}", name = x)) }'):
        try:
            r20_write_fmt(srcbad, 'fmt_display')
            bad += 1
            print('SELFTEST FAIL: R20 accepted %s' % srcbad)
        except (RuleError, ValueError):
            pass
    # loop ordinals are preserved by the for-rewrite
    src = '{ for i in 0..3 { while x { } } loop { for &c in s.iter() { } } }'
    out, _ = r_for_loops(src)
    if len(loop_headers(out)) != len(loop_headers(src)):
        bad += 1
        print('SELFTEST FAIL: loop ordinals changed')
    return bad


if __name__ == '__main__':
    import sys
    b = selftest()
    print('rules selftest: %s' % ('ok' if b == 0 else '%d failures' % b))
    sys.exit(1 if b else 0)
