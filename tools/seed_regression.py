#!/usr/bin/env python3
"""Regression over the kept seeded changes (seeded/<id>/patch.diff): every one must still be reported.

    tools/seed_regression.py [--scratch DIR] [--only ID ...] [--tier quick|thorough]

For each seed: a scratch clone of /repo (outside /repo and /verif; default /tmp/verif-seed-regression, removed at the end)
gets the patch applied, `bin/check <property>` runs against it (VERIF_REPO / VERIF_CACHE point at the scratch copy, so /repo
itself is never touched), and the verdict line is recorded.  Expected: exit 1 with a VIOLATION line for every seed.
Writes seeded/REGRESSION.json and prints one line per seed; exit 0 iff all were reported.
This is a maintenance tool, not one of the registered checks.
"""
import json
import os
import shutil
import subprocess
import sys
import time

VERIF = os.path.dirname(os.path.dirname(os.path.abspath(__file__)))
REPO = os.environ.get('VERIF_REPO', '/repo')


def sh(cmd, cwd=None, env=None, timeout=7200):
    p = subprocess.run(cmd, cwd=cwd, env=env, stdout=subprocess.PIPE, stderr=subprocess.STDOUT, text=True, timeout=timeout)
    return p.returncode, p.stdout


def main(argv):
    scratch = '/tmp/verif-seed-regression'
    only = []
    tier = 'quick'
    i = 1
    while i < len(argv):
        if argv[i] == '--scratch':
            scratch = argv[i + 1]
            i += 2
        elif argv[i] == '--tier':
            tier = argv[i + 1]
            i += 2
        elif argv[i] == '--only':
            only = argv[i + 1:]
            break
        else:
            i += 1
    for forbidden in (REPO, VERIF):
        if os.path.abspath(scratch).startswith(os.path.abspath(forbidden) + os.sep) or os.path.abspath(scratch) == os.path.abspath(forbidden):
            print('scratch directory must be outside %s' % forbidden)
            return 2
    repo = os.path.join(scratch, 'repo')
    cache = os.path.join(scratch, 'cache')
    if os.path.exists(scratch):
        shutil.rmtree(scratch)
    os.makedirs(scratch)
    rc, out = sh(['git', 'clone', '-q', REPO, repo])
    if rc != 0:
        print('cannot clone %s: %s' % (REPO, out[-300:]))
        return 2
    env = dict(os.environ)
    env['VERIF_REPO'] = repo
    env['VERIF_CACHE'] = cache
    seeds = sorted(d for d in os.listdir(os.path.join(VERIF, 'seeded')) if os.path.isdir(os.path.join(VERIF, 'seeded', d)))
    if only:
        seeds = [s for s in seeds if s in only]
    results = []
    bad = 0
    for sid in seeds:
        sdir = os.path.join(VERIF, 'seeded', sid)
        meta = json.load(open(os.path.join(sdir, 'meta.json')))
        pid = meta.get('property', sid.split('-')[0])[:3]
        sh(['git', 'checkout', '-q', '--', '.'], cwd=repo)
        rc, out = sh(['git', 'apply', os.path.join(sdir, 'patch.diff')], cwd=repo)
        if rc != 0:
            results.append({'seed': sid, 'property': pid, 'verdict': 'PATCH-DOES-NOT-APPLY', 'line': out[-200:]})
            print('%-7s %s PATCH-DOES-NOT-APPLY' % (sid, pid))
            bad += 1
            continue
        t0 = time.time()
        rc, out = sh([os.path.join(VERIF, 'bin', 'check'), pid, '--tier', tier], cwd=VERIF, env=env)
        lines = [l for l in out.strip().split('\n') if l.strip()]
        last = lines[-1] if lines else ''
        verdict = 'VIOLATION' if (rc == 1 and 'VIOLATION property=%s' % pid in last) else ('UNDECIDED' if rc == 2 else ('OK' if rc == 0 else 'exit %d' % rc))
        reason = ''
        for l in reversed(lines[:-1]):
            if l.startswith('failed obligation:'):
                reason = l[:300]
                break
        results.append({'seed': sid, 'property': pid, 'verdict': verdict, 'exit': rc, 'with_failing_input': 'no-failing-input-found' not in last,
                        'line': last[:300], 'first_failed_obligation': reason, 'wall_s': round(time.time() - t0, 1)})
        print('%-7s %s %-10s %5.0fs %s' % (sid, pid, verdict, time.time() - t0, '' if 'no-failing-input-found' not in last else '(no failing input)'))
        sys.stdout.flush()
        if verdict != 'VIOLATION':
            bad += 1
    sh(['git', 'checkout', '-q', '--', '.'], cwd=repo)
    if only:
        # partial re-run: merge into the record of the last full run
        try:
            prev = json.load(open(os.path.join(VERIF, 'seeded', 'REGRESSION.json')))['results']
        except (OSError, ValueError, KeyError):
            prev = []
        done = set(r['seed'] for r in results)
        results = sorted([r for r in prev if r['seed'] not in done] + results, key=lambda r: r['seed'])
        bad = sum(1 for r in results if r['verdict'] != 'VIOLATION')
    with open(os.path.join(VERIF, 'seeded', 'REGRESSION.json'), 'w') as fh:
        json.dump({'repo_head': sh(['git', 'rev-parse', 'HEAD'], cwd=REPO)[1].strip(), 'tier': tier, 'seeds': len(results),
                   'reported': len(results) - bad, 'results': results}, fh, indent=1)
    shutil.rmtree(scratch, ignore_errors=True)
    print('%d seeds, %d reported, %d not' % (len(results), len(results) - bad, bad))
    return 0 if bad == 0 else 1


if __name__ == '__main__':
    sys.exit(main(sys.argv))
