#!/usr/bin/env python3
"""setup_cmd: offline sanity of the tool chain and cache warm-up (nothing is fetched)."""
import os, subprocess, sys
sys.path.insert(0, os.path.dirname(os.path.abspath(__file__)))
import extract, rules
bad = rules.selftest()
for tool in (['verus', '--version'], ['cargo', 'kani', '--version'], ['cargo', '--version']):
    try:
        subprocess.run(tool, stdout=subprocess.DEVNULL, stderr=subprocess.DEVNULL, check=True)
    except Exception as e:
        print('setup: tool missing:', tool, e)
        bad += 1
try:
    extract.expand(())
except extract.Undecided as e:
    print('setup: expansion failed:', e)
    bad += 1
print('setup: %s' % ('ok' if not bad else 'FAILED'))
sys.exit(1 if bad else 0)
