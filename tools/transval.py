#!/usr/bin/env python3
"""Translation validation of the extraction + desugaring rules (bounded differential test).

For every configured unit U the SAME driver source (transval/<D>_driver.rs, preceded by transval/common.rs) is built twice:

  A  extracted side: the unit file that tools/extract.py assembles for Verus (rule-rewritten bodies; ghost code erased
     by `verus --compile --no-verify`), with its final `fn main() {}` replaced by  mod tv { <D>_shim_extracted.rs }
     + mod tv_driver { common.rs + <D>_driver.rs } + main;
  B  real side: a small cargo bin project under $VERIF_CACHE/transval-work/U/real that depends on
     $VERIF_REPO/ffuzzy (lib `ssdeep`, the unit's @features), with  mod tv { <D>_shim_real.rs }  + the same driver.

Both binaries are run with the same seed / number of cases; the transcripts (one line per case: inputs, every output,
`PANIC` for a caught panic) must be identical line by line.

    python3 tools/transval.py [--seed N] [--cases N] [--jobs N] [unit ...]     (default: all configured units)
    python3 tools/transval.py --list
    python3 tools/transval.py --selftest                                        (perturbed copies of `hashes` must MISMATCH)
    python3 tools/transval.py --mutate 'OLD' 'NEW' [--nth K] unit               (edit the COPY of the unit file under
                                                                                  .cache/transval-work before compiling)
Output per unit, exit code = worst over the units:
    TRANSVAL OK unit=U cases=N lines=M ...                                   exit 0
    TRANSVAL MISMATCH unit=U first differing line ... (+ both lines)         exit 1
    TRANSVAL UNDECIDED unit=U reason=...                                     exit 2   (unit no longer extracts, a function
        was detached from its contract, a side does not compile, timeout, ...: never an alarm, never a pass)

Both sides are compiled with opt-level 1, debug assertions and overflow checks ON (the real crate's debug_assert!/invariant!
are active, matching verif_debug_panic(); arithmetic overflow and out-of-bounds indexing panic on both sides).
Seed: --seed, else $VERIF_SEED, else 1.  Everything the tool writes is under $VERIF_CACHE/transval-work (sources, extracted
binaries, transcripts of a mismatch) and $VERIF_CACHE/transval-target (cargo); both are caches and may be deleted.

Configuration (UNITS below):
  'driver' D, 'flags'   driver / shim files transval/D_*.rs; flags drive a line preprocessor (`//@if FLAG`, `//@if !FLAG`,
                        `//@else`, `//@endif`, may nest) so that feature variants of a unit share one driver;
  'unit' U'             the entry is a second configuration of unit U' (other driver / flags);
  'stubs' [..]          functions that the unit keeps as `external_body` (body `unimplemented!()`) get the reference body
                        from STUBS in the harness's COPY of the unit, so that the code around them can run.  The stubbed
                        functions are NOT under test; units/configurations without 'stubs' run the unit file unmodified;
  'covered_by' V        a unit of crate-private functions (nothing the real side could call): the harness checks that every
                        item of the unit occurs in unit V with the same expanded source, the same rule applications and the
                        same emitted text, and reports V's result.
Drivers that need files get a scratch directory in $TV_TMPDIR (= the unit's work directory /tmp).
"""
import argparse
import hashlib
import os
import re
import shutil
import subprocess
import sys
import threading
import time

sys.path.insert(0, os.path.dirname(os.path.abspath(__file__)))
import extract  # noqa: E402  (honours VERIF_REPO / VERIF_CACHE)

VERIF = extract.VERIF
TVDIR = os.path.join(VERIF, 'transval')
WORK = os.path.join(extract.CACHE, 'transval-work')
TARGET = os.path.join(extract.CACHE, 'transval-target')

# Order = order of the default run and of the report.
_BS = ['is_valid', 'log_from_valid_internal']
UNITS = {
    # (a) rolling hash / partial FNV
    'hashes':           {'driver': 'hashes', 'flags': [], 'cases': 4000},
    'misc_gen':         {'driver': 'hashes', 'flags': ['iter'], 'cases': 4000},               # + update_by_iter, Default
    'hashes_reduce':    {'driver': 'hashes', 'flags': ['norolling', 'noadd'], 'cases': 4000},  # opt-reduce-fnv-table
    'misc_reduce':      {'driver': 'hashes', 'flags': ['norolling', 'noadd', 'iter'], 'cases': 4000},
    # (b) generator, and its `unsafe` build (rule R17)
    'generator':        {'driver': 'generator', 'flags': [], 'cases': 2000},
    'generator_unsafe': {'driver': 'generator', 'flags': ['unsafe'], 'cases': 2000},
    'misc_gen_g':       {'unit': 'misc_gen', 'driver': 'generator', 'flags': ['misc'], 'cases': 2000},  # + Default, is_size_too_large_error
    # (c) position arrays
    'position_array':   {'driver': 'position_array', 'flags': [], 'cases': 4000},
    # (d) block hash algorithms + hash objects
    'algorithms':       {'covered_by': 'hashdata'},
    'hashdata':         {'driver': 'hashdata', 'flags': [], 'cases': 4000},
    'hashdata_bs':      {'unit': 'hashdata', 'driver': 'hashdata', 'flags': ['stubs'], 'cases': 4000, 'stubs': _BS},  # + new_from_internals
    # (e) dual hashes
    'hash_dual_algos':  {'covered_by': 'hash_dual_obj'},
    'hash_dual_obj':    {'driver': 'hash_dual_obj', 'flags': [], 'cases': 4000},
    'hash_dual_obj_bs': {'unit': 'hash_dual_obj', 'driver': 'hash_dual_obj', 'flags': ['stubs'], 'cases': 4000, 'stubs': _BS},
    # (f) window iterators
    'windows':          {'driver': 'windows', 'flags': [], 'cases': 4000},
    # (g) comparison
    'compare':          {'driver': 'compare', 'flags': [], 'cases': 4000},
    # beyond the original list: parsers (rules R4, R5, R5'/R5''), text (R20), easy functions, small public wrappers
    'parser':           {'driver': 'parser', 'flags': [], 'cases': 4000, 'stubs': _BS},
    'parser_strict':    {'driver': 'parser', 'flags': ['strict'], 'cases': 4000, 'stubs': _BS},
    'text':             {'driver': 'text', 'flags': [], 'cases': 2000},
    'text_unsafe':      {'driver': 'text', 'flags': ['unsafe'], 'cases': 2000},
    'hash_dual_text':   {'driver': 'dual_text', 'flags': ['text'], 'cases': 2000},
    'hash_dual':        {'driver': 'dual_text', 'flags': ['parse'], 'cases': 4000, 'stubs': _BS},
    'hash_dual_strict': {'driver': 'dual_text', 'flags': ['parse', 'strict'], 'cases': 4000, 'stubs': _BS},
    'misc':             {'driver': 'misc', 'flags': [], 'cases': 4000, 'stubs': _BS},
    'compare_easy':     {'covered_by': 'misc'},
    'easy':             {'driver': 'easy', 'flags': [], 'cases': 2000},
}

# Reference bodies for functions that the unit keeps as `#[verifier::external_body]` (body `unimplemented!()`), for units
# that list them under 'stubs'.  They are NOT under test (their contracts are discharged by Kani harnesses on the real
# functions); a stub only lets the code AROUND them run.  Each must satisfy the contract stated in the unit.
STUBS = {
    # contract: r == bs_valid(block_size)   (real body: (block_size % MIN == 0) && (block_size / MIN).is_power_of_two())
    'is_valid': ('pub const fn is_valid(block_size: u32)',
                 '{ (block_size % 3 == 0) && (block_size / 3).is_power_of_two() }'),
    # contract: requires bs_valid(block_size); r < 31 && block_size == bs_of(r)   (real body: de Bruijn table lookup)
    'log_from_valid_internal': ('pub fn log_from_valid_internal(block_size: u32)',
                                '{ (block_size / 3).trailing_zeros() as u8 }'),
}

RUSTC_FLAGS = ['-C', 'opt-level=1', '-C', 'debug-assertions=on', '-C', 'overflow-checks=on']

CARGO_TOML = '''# GENERATED by tools/transval.py (real side of unit %(unit)s)
[package]
name = "tv_%(unit)s"
version = "0.0.0"
edition = "2021"
publish = false

[workspace]

[[bin]]
name = "tv_%(unit)s"
path = "main.rs"

[dependencies]
ssdeep = { package = "ffuzzy", path = "%(ffuzzy)s"%(features)s }

[lints.rust]
unexpected_cfgs = { level = "allow" }

[profile.dev]
opt-level = 1
debug = false
debug-assertions = true
overflow-checks = true
incremental = false
codegen-units = 16
panic = "unwind"
'''

ALLOW = ('#![allow(unused_imports, dead_code, unused_variables, unused_mut, unused_parens, unused_braces, '
         'non_snake_case, unused_assignments, deprecated, unused_macros, unreachable_patterns)]\n')
INNER_ALLOW = ('#[allow(unused_imports, dead_code, unused_variables, unused_mut, unused_parens, unused_braces, '
               'non_snake_case, unused_assignments, deprecated, unused_macros, unreachable_patterns)]\n')

MAIN_FN = '''
fn main() {
    let a = tv_driver::tv_args();
    let mut o = tv_driver::Out::new();
    tv_driver::tv_run(a.seed, a.cases, &mut o);
}
'''


class Undecided(Exception):
    pass


def vc_of(name):
    """contract file of a configured entry (an entry may name another unit with 'unit': a second driver configuration)."""
    return os.path.join(VERIF, 'contracts', UNITS.get(name, {}).get('unit', name) + '.vc')


def preprocess(text, flags, where):
    """//@if FLAG | //@if !FLAG | //@else | //@endif  (line directives, may nest)."""
    out = []
    stack = []  # (active_before, cond)
    active = True
    for n, ln in enumerate(text.split('\n'), 1):
        s = ln.strip()
        if s.startswith('//@if '):
            f = s[6:].strip()
            cond = (f[1:].strip() not in flags) if f.startswith('!') else (f in flags)
            stack.append((active, cond))
            active = active and cond
            out.append('')
        elif s == '//@else':
            if not stack:
                raise Undecided('%s:%d: //@else without //@if' % (where, n))
            before, cond = stack[-1]
            active = before and not cond
            out.append('')
        elif s == '//@endif':
            if not stack:
                raise Undecided('%s:%d: //@endif without //@if' % (where, n))
            active = stack.pop()[0]
            out.append('')
        else:
            out.append(ln if active else '')   # keep line numbers stable for compiler messages
    if stack:
        raise Undecided('%s: unterminated //@if' % where)
    return '\n'.join(out)


def _read(path):
    try:
        with open(path) as fh:
            return fh.read()
    except OSError as e:
        raise Undecided('cannot read %s: %s' % (path, e.strerror))


def sources(unit):
    cfg = UNITS[unit]
    d = cfg['driver']
    flags = cfg['flags']
    common = _read(os.path.join(TVDIR, 'common.rs'))
    driver = preprocess(_read(os.path.join(TVDIR, d + '_driver.rs')), flags, d + '_driver.rs')
    shim_e = preprocess(_read(os.path.join(TVDIR, d + '_shim_extracted.rs')), flags, d + '_shim_extracted.rs')
    shim_r = preprocess(_read(os.path.join(TVDIR, d + '_shim_real.rs')), flags, d + '_shim_real.rs')
    body = ('#[allow(unused_imports)] use super::tv;\n' + common + '\n// ---- driver\n' + driver)
    return body, shim_e, shim_r


def tail_of_errors(text, n=6):
    lines = [l for l in text.split('\n') if l.startswith('error')]
    if lines:
        return ' | '.join(lines[:n])
    return text[-600:].replace('\n', ' ')


def _write_if_changed(path, text):
    try:
        with open(path) as fh:
            if fh.read() == text:
                return False
    except OSError:
        pass
    tmp = '%s.%d.tmp' % (path, os.getpid())
    with open(tmp, 'w') as fh:
        fh.write(text)
    os.replace(tmp, path)
    return True


_VERUS_HELP = []


def verus_has_no_verify():
    if not _VERUS_HELP:
        try:
            p = subprocess.run(['verus', '--help'], stdout=subprocess.PIPE, stderr=subprocess.STDOUT, text=True, timeout=60)
            _VERUS_HELP.append(p.stdout)
        except (OSError, subprocess.TimeoutExpired) as e:
            raise Undecided('verus not runnable: %s' % e)
    h = _VERUS_HELP[0]
    if '--compile' not in h:
        raise Undecided('this verus has no --compile')
    return '--no-verify' in h


_CARGO_LOCK = threading.Lock()
_EXTRACT_LOCK = threading.Lock()


def build_extracted(unit, mutate=None, tag=''):
    """Assemble the unit, splice the driver in, compile with Verus.  Returns (binary, info dict)."""
    wdir = os.path.join(WORK, unit + tag)
    udir = os.path.join(wdir, 'unit')
    os.makedirs(udir, exist_ok=True)
    vc = vc_of(unit)
    if not os.path.exists(vc):
        raise Undecided('no contract file %s' % vc)
    try:
        with _EXTRACT_LOCK:   # expansion cache files are written per process, not per thread
            rs, meta = extract.build_unit(vc, udir)
    except extract.Undecided as e:
        raise Undecided('unit no longer extracts: ' + str(e).split('\n')[0][:300])
    except Exception as e:  # the extractor itself failing is not a verdict either
        raise Undecided('extractor error: %s: %s' % (type(e).__name__, str(e)[:300]))
    if meta.get('detached'):
        raise Undecided('functions detached from their contract (bodies not in the unit): ' +
                        ', '.join(d['fn'] for d in meta['detached'])[:300])
    text = _read(rs)
    m = re.search(r'\nfn main\(\) \{\}\s*$', text)
    if not m:
        raise Undecided('generated unit file does not end with `fn main() {}`')
    text = text[:m.start()] + '\n'
    note = ''
    if mutate:
        old, new, nth = mutate
        cnt = text.count(old)
        if cnt == 0:
            raise Undecided('--mutate: text %r not found in the generated unit' % old)
        if nth is None and cnt != 1:
            raise Undecided('--mutate: text %r occurs %d times; give --nth K (1-based)' % (old, cnt))
        k = (nth or 1)
        if k > cnt:
            raise Undecided('--mutate: only %d occurrences of %r' % (cnt, old))
        pos = -1
        for _ in range(k):
            pos = text.find(old, pos + 1)
        text = text[:pos] + new + text[pos + len(old):]
        note = 'mutated copy: %r -> %r at line %d' % (old, new, text.count('\n', 0, pos) + 1)
    stubbed = []
    for name in UNITS[unit].get('stubs', []):
        anchor, body_ = STUBS[name]
        a = text.find(anchor)
        if a < 0 or text.find(anchor, a + 1) >= 0:
            raise Undecided('stub %s: signature %r not found exactly once in the generated unit' % (name, anchor))
        if not text[:a].rstrip().endswith('#[verifier::external_body]'):
            raise Undecided('stub %s: the function is no longer external_body in the unit (drop the stub)' % name)
        b = text.find('{ unimplemented!() }', a)
        nxt = text.find('\npub ', a + 1)
        if b < 0 or (nxt >= 0 and b > nxt):
            raise Undecided('stub %s: no `{ unimplemented!() }` body after %r' % (name, anchor))
        text = text[:b] + body_ + ' /* transval stub */' + text[b + len('{ unimplemented!() }'):]
        stubbed.append(name)
    body, shim_e, _ = sources(unit)
    text += ('\n// ======================================================================= transval (tools/transval.py)\n'
             + INNER_ALLOW + 'mod tv {\n' + shim_e + '\n}\n'
             + INNER_ALLOW + 'mod tv_driver {\n' + body + '\n}\n' + MAIN_FN)
    src = os.path.join(wdir, unit + '_tv.rs')
    binary = os.path.join(wdir, unit + '_tv')
    noverify = verus_has_no_verify()
    cmd = ['verus', src, '--compile'] + (['--no-verify'] if noverify else []) + RUSTC_FLAGS + ['-o', binary]
    key = hashlib.sha256((text + '\0' + ' '.join(cmd)).encode()).hexdigest()
    stamp = binary + '.sha'
    info = {'unit_rs': rs, 'src': src, 'features': meta.get('features') or [], 'note': note, 'cached': False,
            'stubs': stubbed}
    if os.path.exists(binary) and os.path.exists(stamp) and _read(stamp).strip() == key:
        info['cached'] = True
        return binary, info
    _write_if_changed(src, text)
    try:
        os.remove(stamp)
    except OSError:
        pass
    t0 = time.time()
    try:
        p = subprocess.run(cmd, cwd=wdir, stdout=subprocess.PIPE, stderr=subprocess.PIPE, text=True, timeout=1800)
    except subprocess.TimeoutExpired:
        raise Undecided('verus --compile timed out on %s' % src)
    info['compile_s'] = round(time.time() - t0, 1)
    if p.returncode != 0 or not os.path.exists(binary):
        with open(os.path.join(wdir, 'verus-compile.log'), 'w') as fh:
            fh.write(p.stdout + '\n' + p.stderr)
        raise Undecided('extracted side does not compile (%s; log %s): %s'
                        % (src, os.path.join(wdir, 'verus-compile.log'), tail_of_errors(p.stderr)))
    with open(stamp, 'w') as fh:
        fh.write(key + '\n')
    return binary, info


def build_real(unit, tag=''):
    """Materialise the cargo project for the real side and build it (dev profile, debug assertions on)."""
    vc = vc_of(unit)
    try:
        uspec = extract.parse_contract_file(vc)
    except extract.Undecided as e:
        raise Undecided('contract file does not parse: ' + str(e)[:200])
    feats = list(uspec.features or [])
    rdir = os.path.join(WORK, unit + tag, 'real')
    os.makedirs(rdir, exist_ok=True)
    ffuzzy = os.path.abspath(os.path.join(extract.REPO, 'ffuzzy'))
    if not os.path.exists(os.path.join(ffuzzy, 'Cargo.toml')):
        raise Undecided('no crate at %s' % ffuzzy)
    fdecl = ''
    if uspec.no_default:
        fdecl += ', default-features = false'
    if feats:
        fdecl += ', features = [%s]' % ', '.join('"%s"' % f for f in feats)
    manifest = CARGO_TOML % {'unit': unit, 'ffuzzy': ffuzzy, 'features': fdecl}
    body, _, shim_r = sources(unit)
    main_rs = ('// GENERATED by tools/transval.py (real side of unit %s)\n' % unit + ALLOW
               + 'mod tv {\n' + shim_r + '\n}\n' + 'mod tv_driver {\n' + body + '\n}\n' + MAIN_FN)
    if _write_if_changed(os.path.join(rdir, 'Cargo.toml'), manifest):
        # start from the lock file of the tree under test (offline resolution picks the same dependency versions)
        lock = os.path.join(extract.REPO, 'Cargo.lock')
        try:
            os.remove(os.path.join(rdir, 'Cargo.lock'))
        except OSError:
            pass
        if os.path.exists(lock):
            shutil.copyfile(lock, os.path.join(rdir, 'Cargo.lock'))
    _write_if_changed(os.path.join(rdir, 'main.rs'), main_rs)
    env = dict(os.environ)
    env['CARGO_NET_OFFLINE'] = 'true'
    env['CARGO_TARGET_DIR'] = TARGET
    env.pop('RUSTFLAGS', None)
    cmd = ['cargo', 'build', '--offline', '--quiet', '--manifest-path', os.path.join(rdir, 'Cargo.toml')]
    t0 = time.time()
    with _CARGO_LOCK:   # one target dir: cargo would serialise anyway
        try:
            p = subprocess.run(cmd, env=env, stdout=subprocess.PIPE, stderr=subprocess.PIPE, text=True, timeout=1800)
            if p.returncode != 0 and 'Cargo.lock' in p.stderr:
                # the copied lock file does not fit: let cargo resolve from the local registry
                os.remove(os.path.join(rdir, 'Cargo.lock'))
                p = subprocess.run(cmd, env=env, stdout=subprocess.PIPE, stderr=subprocess.PIPE, text=True, timeout=1800)
        except subprocess.TimeoutExpired:
            raise Undecided('cargo build of the real side timed out')
    binary = os.path.join(TARGET, 'debug', 'tv_' + unit)
    if p.returncode != 0 or not os.path.exists(binary):
        with open(os.path.join(rdir, 'cargo-build.log'), 'w') as fh:
            fh.write(p.stdout + '\n' + p.stderr)
        raise Undecided('real side does not build (log %s): %s'
                        % (os.path.join(rdir, 'cargo-build.log'), tail_of_errors(p.stderr)))
    return binary, {'features': feats, 'build_s': round(time.time() - t0, 1), 'dir': rdir}


def run_binary(binary, seed, cases, side, tmpdir=None):
    t0 = time.time()
    env = dict(os.environ)
    env['RUST_BACKTRACE'] = '0'
    if tmpdir:
        # scratch directory for drivers that need files (easy_driver.rs); the two sides run one after the other
        os.makedirs(tmpdir, exist_ok=True)
        env['TV_TMPDIR'] = tmpdir
    try:
        p = subprocess.run([binary, str(seed), str(cases)], stdout=subprocess.PIPE, stderr=subprocess.PIPE, env=env,
                           text=True, errors='replace', timeout=1200)
    except subprocess.TimeoutExpired:
        raise Undecided('%s side timed out after 1200 s' % side)
    lines = p.stdout.split('\n')
    if lines and lines[-1] == '':
        lines.pop()
    if p.returncode != 0:
        # an escaped panic / abort is part of the observable behaviour: make it a transcript line
        lines.append('EXIT status=%d' % p.returncode)
    return lines, round(time.time() - t0, 2)


def _unit_functions(unit, tag):
    """{qualified name: (src_sha, rules, external_body, emitted text)} of a freshly assembled unit."""
    udir = os.path.join(WORK, unit + tag, 'unit')
    os.makedirs(udir, exist_ok=True)
    vc = vc_of(unit)
    try:
        with _EXTRACT_LOCK:
            rs, meta = extract.build_unit(vc, udir)
    except extract.Undecided as e:
        raise Undecided('unit %s no longer extracts: %s' % (unit, str(e).split('\n')[0][:300]))
    except Exception as e:
        raise Undecided('extractor error on %s: %s: %s' % (unit, type(e).__name__, str(e)[:300]))
    if meta.get('detached'):
        raise Undecided('functions of %s detached from their contract: %s' % (unit, ', '.join(d['fn'] for d in meta['detached'])[:300]))
    lines = _read(rs).split('\n')
    text = {}
    for rng in meta.get('fn_ranges', []):
        start, end, qual = rng[0], rng[1], rng[2]
        text[qual] = '\n'.join(lines[start - 1:end - 1]) if start >= 1 else '\n'.join(lines[start:end])
    out = {}
    for f in meta['functions']:
        out[f['fn']] = (f['src_sha'], f['rules'], bool(f['external_body']), text.get(f['fn']))
    return out


def check_covered(unit, cover, seed, cases, tag='', cover_result=None):
    """A unit of crate-private functions: same bodies as in the covering unit, whose driver reaches them."""
    try:
        mine = _unit_functions(unit, tag)
        theirs = _unit_functions(cover, tag)
    except Undecided as e:
        return 2, ['TRANSVAL UNDECIDED unit=%s reason=%s' % (unit, str(e).replace('\n', ' ')[:900])]
    bad = []
    nfn = 0
    for q, (sha, rules_, ext, txt) in sorted(mine.items()):
        if q not in theirs:
            bad.append('%s is not in unit %s' % (q, cover))
            continue
        sha2, rules2, ext2, txt2 = theirs[q]
        if sha != sha2 or rules_ != rules2 or ext != ext2:
            bad.append('%s differs between the units (source / rule applications / external_body)' % q)
        elif txt is not None and txt2 is not None and txt != txt2:
            bad.append('%s: emitted text differs between the units' % q)
        if rules_ or txt:
            nfn += 1
    if bad:
        return 2, ['TRANSVAL UNDECIDED unit=%s reason=not covered by unit %s: %s' % (unit, cover, '; '.join(bad)[:700])]
    code, msgs = cover_result if cover_result is not None else check_unit(cover, seed, cases, tag=tag)
    via = ' via=%s (%d items of %s occur with the same source, rule applications and emitted text in %s)' % (cover, len(mine), unit, cover)
    msgs = [m.replace('unit=%s' % cover, 'unit=%s' % unit, 1) + via if m.startswith('TRANSVAL ') else m for m in msgs]
    return code, msgs


def check_unit(unit, seed, cases, mutate=None, tag='', verbose=False):
    """Returns (code, message lines)."""
    cfg = UNITS.get(unit)
    if cfg is None:
        return 2, ['TRANSVAL UNDECIDED unit=%s reason=not configured in tools/transval.py (known: %s)' % (unit, ' '.join(UNITS))]
    if 'covered_by' in cfg:
        if mutate:
            return 2, ['TRANSVAL UNDECIDED unit=%s reason=--mutate: use the covering unit %s' % (unit, cfg['covered_by'])]
        return check_covered(unit, cfg['covered_by'], seed, cases, tag)
    n = cases if cases is not None else cfg['cases']
    t0 = time.time()
    try:
        res = {}
        errs = {}

        def side_a():
            try:
                res['a'] = build_extracted(unit, mutate, tag)
            except Undecided as e:
                errs['a'] = e

        def side_b():
            try:
                res['b'] = build_real(unit, tag)
            except Undecided as e:
                errs['b'] = e
        ta = threading.Thread(target=side_a)
        tb = threading.Thread(target=side_b)
        ta.start(); tb.start(); ta.join(); tb.join()
        if errs:
            raise Undecided('; '.join('%s' % errs[k] for k in sorted(errs)))
        (bin_a, info_a), (bin_b, info_b) = res['a'], res['b']
        tbuild = time.time() - t0
        tmpdir = os.path.join(WORK, unit + tag, 'tmp')
        la, ra = run_binary(bin_a, seed, n, 'extracted', tmpdir)
        lb, rb = run_binary(bin_b, seed, n, 'real', tmpdir)
    except Undecided as e:
        return 2, ['TRANSVAL UNDECIDED unit=%s reason=%s' % (unit, str(e).replace('\n', ' ')[:900])]
    msgs = []
    if info_a.get('note'):
        msgs.append('  (%s)' % info_a['note'])
    timing = 'build=%.1fs run_extracted=%.2fs run_real=%.2fs' % (tbuild, ra, rb)
    if len(la) < 2 or len(lb) < 2:
        return 2, msgs + ['TRANSVAL UNDECIDED unit=%s reason=empty transcript (extracted %d lines, real %d lines)' % (unit, len(la), len(lb))]
    for i in range(max(len(la), len(lb))):
        xa = la[i] if i < len(la) else '<end of transcript>'
        xb = lb[i] if i < len(lb) else '<end of transcript>'
        if xa != xb:
            ndiff = sum(1 for j in range(min(len(la), len(lb))) if la[j] != lb[j]) + abs(len(la) - len(lb))
            msgs.append('TRANSVAL MISMATCH unit=%s first differing line %d (of %d/%d; %d lines differ) seed=%d cases=%d'
                        % (unit, i + 1, len(la), len(lb), ndiff, seed, n))
            msgs.append('  extracted: ' + clip(xa, xb))
            msgs.append('  real     : ' + clip(xb, xa))
            ta_ = os.path.join(WORK, unit + tag, 'transcript-extracted.txt')
            tb_ = os.path.join(WORK, unit + tag, 'transcript-real.txt')
            with open(ta_, 'w') as fh:
                fh.write('\n'.join(la) + '\n')
            with open(tb_, 'w') as fh:
                fh.write('\n'.join(lb) + '\n')
            msgs.append('  transcripts: %s %s' % (ta_, tb_))
            return 1, msgs
    npanic = sum(1 for l in la if 'PANIC' in l)
    msgs.append('TRANSVAL OK unit=%s cases=%d lines=%d seed=%d features=%s panics=%d %s%s'
                % (unit, n, len(la), seed, ','.join(info_b['features']) or '-', npanic, timing,
                   (' stubs=' + ','.join(info_a['stubs'])) if info_a.get('stubs') else ''))
    return 0, msgs


def clip(x, other, width=400):
    """Show the line around the first differing column."""
    if len(x) <= width:
        return x
    k = 0
    while k < min(len(x), len(other)) and x[k] == other[k]:
        k += 1
    lo = max(0, k - width // 2)
    return ('…' if lo else '') + x[lo:lo + width] + ('…' if lo + width < len(x) else '') + '   [differs at column %d]' % (k + 1)


def selftest(seed):
    """The harness must notice a changed rewritten body: perturb a COPY of the extracted `hashes` unit."""
    ok = True
    # (1) unperturbed: OK expected
    code, msgs = check_unit('hashes', seed, 500)
    print('\n'.join(msgs))
    if code != 0:
        print('TRANSVAL SELFTEST FAILED: unperturbed unit `hashes` is not OK')
        ok = False
    # (2) the R3-rewritten loop of RollingHash::update stops one element early in the copy
    muts = [('while __it1 < __s1.len()', 'while __it1 + 1 < __s1.len()', 1, 'RollingHash::update loop (rule R3) stops one element early'),
            ('if self.index as usize == ROLLING_WINDOW { self.index = 0; }', 'if self.index as usize >= ROLLING_WINDOW - 1 { self.index = 0; }', None,
             'RollingHash::update_by_byte wraps the window index one step early')]
    for old, new, nth, what in muts:
        code, msgs = check_unit('hashes', seed, 500, mutate=(old, new, nth), tag='-selftest')
        print('\n'.join(msgs))
        if code != 1:
            print('TRANSVAL SELFTEST FAILED: perturbation not noticed (%s)' % what)
            ok = False
        else:
            print('  selftest: perturbation noticed (%s)' % what)
    print('TRANSVAL SELFTEST %s' % ('OK' if ok else 'FAILED'))
    return 0 if ok else 1


def main(argv):
    ap = argparse.ArgumentParser(description=__doc__, formatter_class=argparse.RawDescriptionHelpFormatter)
    ap.add_argument('--seed', type=int, default=int(os.environ.get('VERIF_SEED', '1') or 1))
    ap.add_argument('--cases', type=int, default=None, help='cases per unit (default: per-unit setting)')
    ap.add_argument('--jobs', type=int, default=min(4, os.cpu_count() or 1), help='units built/run in parallel')
    ap.add_argument('--selftest', action='store_true')
    ap.add_argument('--list', action='store_true', help='list configured units')
    ap.add_argument('--mutate', nargs=2, metavar=('OLD', 'NEW'),
                    help='replace text OLD by NEW in the COPY of the generated unit before compiling (single unit)')
    ap.add_argument('--nth', type=int, default=None, help='which occurrence of OLD (1-based) when it is not unique')
    ap.add_argument('units', nargs='*')
    a = ap.parse_args(argv)
    if a.list:
        for u, c in UNITS.items():
            if 'covered_by' in c:
                print('%-18s covered by unit %s' % (u, c['covered_by']))
            else:
                print('%-18s unit=%s driver=%s flags=%s cases=%d stubs=%s'
                      % (u, c.get('unit', u), c['driver'], ','.join(c['flags']) or '-', c['cases'], ','.join(c.get('stubs', [])) or '-'))
        return 0
    os.makedirs(WORK, exist_ok=True)
    if a.selftest:
        return selftest(a.seed)
    units = a.units or list(UNITS)
    if a.mutate:
        if len(units) != 1:
            print('--mutate needs exactly one unit')
            return 2
        code, msgs = check_unit(units[0], a.seed, a.cases, mutate=(a.mutate[0], a.mutate[1], a.nth), tag='-mutated')
        print('\n'.join(msgs))
        return code
    results = {}
    sem = threading.Semaphore(max(1, a.jobs))

    def work(u):
        with sem:
            try:
                results[u] = check_unit(u, a.seed, a.cases)
            except Exception as e:  # a bug in the harness is not a verdict
                results[u] = (2, ['TRANSVAL UNDECIDED unit=%s reason=harness error %s: %s' % (u, type(e).__name__, str(e)[:300])])
    # covered units reuse the result of their covering unit (never two runs in one work directory at the same time)
    direct = [u for u in units if 'covered_by' not in UNITS.get(u, {})]
    covered = [u for u in units if u not in direct]
    threads = [threading.Thread(target=work, args=(u,)) for u in direct]
    for t in threads:
        t.start()
    for t in threads:
        t.join()
    for u in covered:
        c = UNITS[u]['covered_by']
        try:
            if c not in results:
                results[c] = check_unit(c, a.seed, a.cases)
            results[u] = check_covered(u, c, a.seed, a.cases, cover_result=results[c])
        except Exception as e:
            results[u] = (2, ['TRANSVAL UNDECIDED unit=%s reason=harness error %s: %s' % (u, type(e).__name__, str(e)[:300])])
    worst = 0
    for u in units:
        code, msgs = results[u]
        print('\n'.join(msgs))
        if code == 1:
            worst = 1
        elif code == 2 and worst == 0:
            worst = 2
    return worst


if __name__ == '__main__':
    sys.exit(main(sys.argv[1:]))
