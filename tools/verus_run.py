#!/usr/bin/env python3
"""Run Verus on an assembled unit and map the outcome back to contract clauses."""
import hashlib
import json
import os
import re
import subprocess
import sys
import time

sys.path.insert(0, os.path.dirname(os.path.abspath(__file__)))
import extract

VERIF = extract.VERIF
CACHE = extract.CACHE

SEMANTIC = [
    'postcondition not satisfied',
    'precondition not satisfied',
    'precondition not met',
    'assertion failed',
    'assertion not satisfied',
    'loop invariant not satisfied',
    'invariant not satisfied',
    'possible arithmetic underflow/overflow',
    'possible arithmetic overflow',
    'possible arithmetic underflow',
    'possible division by zero',
    'possible bit shift underflow/overflow',
    'index out of bounds',
    'bitvector assertion not satisfied',
    'bitvector ensures not satisfied',
    'decreases not satisfied',
    'recommendation not met',
    'unreachable',
    'possible truncation',
    'cannot show invariant holds',
    'unwrap',
    'failed precondition',
    'could not prove termination',
]
UNDECIDED_MARKERS = ['rlimit', 'Resource limit', 'timed out', 'timeout', 'could not finish']


def verus_version():
    try:
        return subprocess.run(['verus', '--version'], stdout=subprocess.PIPE, stderr=subprocess.STDOUT,
                              text=True).stdout.strip().replace('\n', ' ')
    except OSError:
        return 'verus: not found'


def run_verus(rs_path, extra_args=(), use_cache=True, seed=None, timeout=1800, multiple_errors=40):
    text = open(rs_path).read()
    args = ['--multiple-errors', str(multiple_errors), '--triggers-mode', 'silent', '--output-json', '--time',
            '--error-format=json'] + list(extra_args)
    if seed is not None:
        args += ['-V', 'smt-option', 'smt.random_seed=%d' % seed] if False else []
    key = hashlib.sha256((text + '\0' + ' '.join(args) + '\0' + VERSION).encode()).hexdigest()
    cdir = os.path.join(CACHE, 'results')
    os.makedirs(cdir, exist_ok=True)
    cfile = os.path.join(cdir, key[:32] + '.json')
    if use_cache and os.environ.get('VERIF_NO_CACHE') != '1' and os.path.exists(cfile):
        try:
            r = json.load(open(cfile))
            r['memoised'] = True
            return r
        except ValueError:
            pass
    t0 = time.time()
    cmd = ['verus', rs_path] + args
    try:
        p = subprocess.run(cmd, stdout=subprocess.PIPE, stderr=subprocess.PIPE, text=True, timeout=timeout,
                           cwd=os.path.dirname(rs_path))
        out, err, rc = p.stdout, p.stderr, p.returncode
        timed_out = False
    except subprocess.TimeoutExpired as e:
        out = e.stdout or ''
        err = e.stderr or ''
        if isinstance(out, bytes):
            out = out.decode('utf-8', 'replace')
        if isinstance(err, bytes):
            err = err.decode('utf-8', 'replace')
        rc = -9
        timed_out = True
    wall = time.time() - t0
    res = {'cmd': ' '.join(cmd), 'rc': rc, 'wall_s': round(wall, 2), 'timed_out': timed_out, 'sha': key,
           'memoised': False}
    try:
        j = json.loads(out)
    except ValueError:
        j = None
    res['json'] = None
    if j:
        vr = j.get('verification-results', {})
        tm = j.get('times-ms', {})
        fb = []
        for mt in tm.get('smt', {}).get('smt-run-module-times', []):
            for f in mt.get('function-breakdown', []):
                fb.append({'function': f.get('function'), 'mode': f.get('mode:') or f.get('mode'),
                           'time_ms': f.get('time'), 'rlimit': f.get('rlimit'), 'success': f.get('success')})
        res['json'] = {'verified': vr.get('verified'), 'errors': vr.get('errors'),
                       'success': vr.get('success'), 'encountered_vir_error': vr.get('encountered-vir-error'),
                       'smt_ms': tm.get('smt', {}).get('total'), 'total_ms': tm.get('total'),
                       'functions': fb}
    diags = []
    for ln in err.split('\n'):
        ln = ln.strip()
        if not ln.startswith('{'):
            continue
        try:
            d = json.loads(ln)
        except ValueError:
            continue
        if d.get('$message_type') != 'diagnostic':
            continue
        if d.get('level') not in ('error', 'warning', 'note'):
            continue
        diags.append({'level': d['level'], 'message': d.get('message', ''), 'code': (d.get('code') or {}).get('code') if d.get('code') else None,
                      'spans': [{'ls': s['line_start'], 'le': s['line_end'], 'primary': s['is_primary'],
                                 'label': s.get('label')} for s in d.get('spans', [])],
                      'rendered': d.get('rendered', '')})
    res['diagnostics'] = [d for d in diags if d['level'] == 'error']
    res['stderr_tail'] = err[-2000:] if not diags else ''
    if not timed_out and res['json'] is not None and (res['json'].get('verified') or 0) > 0:
        with open(cfile + '.tmp', 'w') as fh:
            json.dump(res, fh)
        os.replace(cfile + '.tmp', cfile)
    return res


VERSION = verus_version()


def classify(res, meta):
    """Return dict(status, failures=[...], undecided_reason)
    status: 'ok' | 'fail' | 'undecided'."""
    clauses = meta['clauses']
    fn_ranges = meta['fn_ranges']

    def fn_at(line):
        best = None
        for a, b, q, tg in fn_ranges:
            if a <= line <= b:
                best = (q, tg)
        return best

    def clauses_at(ls, le):
        out = []
        for c in clauses:
            if c['kind'] in ('body', 'signature', 'type', 'const', 'spec'):
                continue
            if c['start'] <= le and ls <= c['end']:
                out.append(c)
        return out

    def spec_at(ls, le):
        for c in clauses:
            if c['kind'] == 'spec' and c['start'] <= le and ls <= c['end']:
                return c
        return None

    if res['timed_out']:
        return {'status': 'undecided', 'reason': 'verus timed out after %ss' % res['wall_s'], 'failures': []}
    j = res.get('json')
    failures = []
    undecided = []
    for d in res['diagnostics']:
        msg = d['message']
        if msg.startswith('aborting due to'):
            continue
        if d.get('code'):
            undecided.append('rustc error %s: %s' % (d['code'], msg))
            continue
        if any(u.lower() in msg.lower() for u in UNDECIDED_MARKERS):
            undecided.append(msg)
            continue
        sem = any(s in msg for s in SEMANTIC)
        if not sem:
            undecided.append('unclassified Verus error: ' + msg)
            continue
        prim = [s for s in d['spans'] if s['primary']] or d['spans']
        if not prim:
            undecided.append('semantic error without span: ' + msg)
            continue
        pl = prim[0]['ls']
        fn = fn_at(pl)
        tags = set()
        hit = []
        for s in d['spans']:
            # only narrow spans select clauses (the span covering the whole fn body is context)
            if s['le'] - s['ls'] > 40 and not s['primary']:
                continue
            for c in clauses_at(s['ls'], s['le'] if (s['le'] - s['ls']) < 40 else s['ls']):
                hit.append(c)
                tags.update(c.get('tags') or [])
        where = None
        kind = 'obligation'
        if fn:
            where = fn[0]
            if not tags:
                tags.update(fn[1] or [])
        else:
            sp = spec_at(pl, pl)
            where = 'spec-lemma in %s' % (sp['text'] if sp else 'prelude')
            kind = 'spec-lemma'
        if hit and all(c['kind'] == 'hint' for c in hit):
            kind = 'internal-proof-step'
        # a failing loop invariant / proof step / safety obligation inside f voids the proof of f's postconditions:
        # the failure is attributed to every property tagged on f's ensures clauses as well
        if fn and not any(c['kind'] in ('ensures', 'requires') for c in hit):
            for c in clauses:
                if c.get('fn') == fn[0] and c['kind'] == 'ensures':
                    tags.update(c.get('tags') or [])
        rend = d.get('rendered', '')
        if 'verif_panic_outside' in rend:
            msg = 'an assert!/panic! is reachable although the documented domain holds at entry (no_panic_when)'
            hit = [c for c in hit if c['kind'] != 'assumption'] or [{'kind': 'no_panic_when', 'text': 'intended panic must be unreachable inside the documented domain', 'tags': sorted(tags)}]
        elif 'verif_debug_panic' in rend:
            msg = 'a debug_assert!/invariant! is not proved (it may fail, or be a false optimizer assumption in unsafe builds)'
            hit = [c for c in hit if c['kind'] != 'assumption'] or [{'kind': 'debug-assertion', 'text': 'debug_assert!/invariant! obligation (rule R1)', 'tags': sorted(tags)}]
        failures.append({'message': msg, 'function': where, 'line': pl, 'tags': sorted(tags), 'kind': kind,
                         'clauses': [{'kind': c['kind'], 'text': c['text'][:300], 'tags': c.get('tags')} for c in hit],
                         'rendered': d['rendered']})
    if undecided:
        return {'status': 'undecided', 'reason': '; '.join(undecided)[:1500], 'failures': failures}
    if j is None:
        return {'status': 'undecided', 'reason': 'no JSON result from Verus (rc=%s): %s' % (res['rc'], res.get('stderr_tail', '')[-800:]),
                'failures': failures}
    if failures:
        return {'status': 'fail', 'failures': failures}
    if j.get('errors') or not j.get('success'):
        return {'status': 'undecided', 'reason': 'Verus reported errors=%s without a mappable diagnostic' % j.get('errors'),
                'failures': []}
    if not j.get('verified'):
        return {'status': 'undecided', 'reason': 'zero verified items (vacuous run)', 'failures': []}
    return {'status': 'ok', 'failures': []}


if __name__ == '__main__':
    vc = sys.argv[1]
    rs, meta = extract.build_unit(vc, os.path.join(CACHE, 'units'))
    r = run_verus(rs, meta.get('verus_args', []), use_cache='--no-cache' not in sys.argv)
    c = classify(r, meta)
    print(json.dumps({'status': c['status'], 'reason': c.get('reason'), 'n_fail': len(c['failures']),
                      'verified': (r.get('json') or {}).get('verified'), 'wall_s': r['wall_s'], 'memoised': r['memoised']}, indent=1))
    for f in c['failures']:
        print('FAIL', f['function'], f['message'], f['tags'], f['kind'])
        for cl in f['clauses']:
            print('     clause:', cl['kind'], cl['text'][:120])
    if c['status'] == 'undecided':
        print(c.get('reason'))
        for d in r['diagnostics'][:5]:
            print(d['rendered'][:1500])
