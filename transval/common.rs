// transval/common.rs -- shared VERBATIM by both sides of every translation-validation driver
// (tools/transval.py pastes this text in front of transval/<D>_driver.rs inside `mod tv_driver`).
// Nothing in here touches the code under test: PRNG, rendering helpers, panic capture, argument parsing.

use std::panic::{catch_unwind, AssertUnwindSafe};

/// xorshift64* (Vigna).  State is never zero.
pub struct Rng(pub u64);

impl Rng {
    pub fn new(seed: u64) -> Rng {
        // splitmix64 finaliser so that neighbouring seeds give unrelated streams
        let mut z = seed.wrapping_add(0x9E37_79B9_7F4A_7C15);
        z = (z ^ (z >> 30)).wrapping_mul(0xBF58_476D_1CE4_E5B9);
        z = (z ^ (z >> 27)).wrapping_mul(0x94D0_49BB_1331_11EB);
        z ^= z >> 31;
        Rng(if z == 0 { 0x2545_F491_4F6C_DD1D } else { z })
    }
    /// stream of case number `case` under run seed `seed`
    pub fn for_case(seed: u64, case: u64) -> Rng {
        Rng::new(seed.wrapping_mul(0x0000_0100_0000_01B3) ^ case.wrapping_mul(0xD6E8_FEB8_6659_FD93) ^ 0x7476_5F63_6173_6521)
    }
    pub fn next(&mut self) -> u64 {
        let mut x = self.0;
        x ^= x >> 12;
        x ^= x << 25;
        x ^= x >> 27;
        self.0 = x;
        x.wrapping_mul(0x2545_F491_4F6C_DD1D)
    }
    /// uniform-ish in 0..n (n > 0)
    pub fn below(&mut self, n: u64) -> u64 {
        (self.next() >> 11) % n
    }
    /// inclusive range
    pub fn range(&mut self, lo: u64, hi: u64) -> u64 {
        lo + self.below(hi - lo + 1)
    }
    pub fn byte(&mut self) -> u8 {
        (self.next() >> 40) as u8
    }
    pub fn chance(&mut self, num: u64, den: u64) -> bool {
        self.below(den) < num
    }
    pub fn bytes(&mut self, n: usize) -> Vec<u8> {
        let mut v = Vec::with_capacity(n);
        for _ in 0..n {
            v.push(self.byte());
        }
        v
    }
}

/// lower-case hex of a byte string
pub fn hex(b: &[u8]) -> String {
    const D: &[u8; 16] = b"0123456789abcdef";
    let mut s = String::with_capacity(b.len() * 2);
    for &x in b {
        s.push(D[(x >> 4) as usize] as char);
        s.push(D[(x & 15) as usize] as char);
    }
    s
}

/// compact rendering of a symbol string (values 0..=255): base64 alphabet for < 64, `~xx` otherwise
pub fn syms(b: &[u8]) -> String {
    const A: &[u8; 64] = b"ABCDEFGHIJKLMNOPQRSTUVWXYZabcdefghijklmnopqrstuvwxyz0123456789+/";
    let mut s = String::with_capacity(b.len() + 2);
    s.push('"');
    for &x in b {
        if x < 64 {
            s.push(A[x as usize] as char);
        } else {
            s.push('~');
            s.push_str(&hex(&[x]));
        }
    }
    s.push('"');
    s
}

/// FNV-1a/64 digest of a (long) input, to name it on one line
pub fn digest(b: &[u8]) -> String {
    let mut h: u64 = 0xcbf2_9ce4_8422_2325;
    for &x in b {
        h ^= x as u64;
        h = h.wrapping_mul(0x0000_0100_0000_01b3);
    }
    format!("{:016x}", h)
}

/// run `f`; a panic (the crate's own `assert!`/`debug_assert!`/index/overflow panic on the real side,
/// `verif_panic()`/`verif_debug_panic()`/index/overflow panic on the extracted side) becomes `None`
pub fn guard<T>(f: impl FnOnce() -> T) -> Option<T> {
    catch_unwind(AssertUnwindSafe(f)).ok()
}

/// `guard` + rendering: the value's rendering, or the word PANIC
pub fn show<T>(f: impl FnOnce() -> T, r: impl FnOnce(&T) -> String) -> String {
    match guard(f) {
        Some(v) => r(&v),
        None => String::from("PANIC"),
    }
}

pub struct TvArgs {
    pub seed: u64,
    pub cases: u64,
}

pub fn tv_args() -> TvArgs {
    let a: Vec<String> = std::env::args().collect();
    let seed = a.get(1).and_then(|s| s.parse().ok()).unwrap_or(1u64);
    let cases = a.get(2).and_then(|s| s.parse().ok()).unwrap_or(2000u64);
    // panics are results here, not diagnostics
    std::panic::set_hook(Box::new(|_| {}));
    TvArgs { seed, cases }
}

/// buffered transcript (one flush at the end; a panic that escapes `guard` still flushes via Drop)
pub struct Out {
    buf: String,
}

impl Out {
    pub fn new() -> Out {
        Out { buf: String::with_capacity(1 << 16) }
    }
    pub fn line(&mut self, s: &str) {
        self.buf.push_str(s);
        self.buf.push('\n');
        if self.buf.len() > (1 << 16) - 512 {
            self.flush();
        }
    }
    pub fn flush(&mut self) {
        use std::io::Write;
        let so = std::io::stdout();
        let mut l = so.lock();
        let _ = l.write_all(self.buf.as_bytes());
        let _ = l.flush();
        self.buf.clear();
    }
}

impl Drop for Out {
    fn drop(&mut self) {
        self.flush();
    }
}

/// the observable content of a fuzzy hash object: log block size, the two FULL block hash arrays and their lengths
/// (filled in by the per-side shims: pub fields on the extracted side, public accessors on the real side)
#[derive(Clone, Debug, PartialEq)]
pub struct HashFields {
    pub log: u8,
    pub bh1: Vec<u8>,
    pub len1: usize,
    pub bh2: Vec<u8>,
    pub len2: usize,
}

/// one-token rendering of HashFields: `<log>:"<bh1>"/<len1>:"<bh2>"/<len2>`, plus the unused tails when not all zero
pub fn fields(f: &HashFields) -> String {
    let l1 = f.len1.min(f.bh1.len());
    let l2 = f.len2.min(f.bh2.len());
    let t1 = if f.bh1[l1..].iter().all(|&x| x == 0) { String::new() } else { format!("!tail1={}", hex(&f.bh1[l1..])) };
    let t2 = if f.bh2[l2..].iter().all(|&x| x == 0) { String::new() } else { format!("!tail2={}", hex(&f.bh2[l2..])) };
    format!("{}:{}/{}{}:{}/{}{}", f.log, syms(&f.bh1[..l1]), f.len1, t1, syms(&f.bh2[..l2]), f.len2, t2)
}

// ---------------------------------------------------------------------------------------------------------------------
// text generator for the parser drivers: `<block size>:<block hash 1>:<block hash 2>[,<file name>]` with valid and invalid
// parts (see parser_driver.rs)

pub const B64: &[u8; 64] = b"ABCDEFGHIJKLMNOPQRSTUVWXYZabcdefghijklmnopqrstuvwxyz0123456789+/";

pub fn gen_block_size(rng: &mut Rng) -> Vec<u8> {
    match rng.below(60) {
        0 => Vec::new(),
        1 => b"0".to_vec(),
        2 => format!("0{}", 3u64 << rng.range(0, 30)).into_bytes(),
        3 => format!("{}", rng.range(1, 100)).into_bytes(),
        4 => format!("{}", (3u64 << rng.range(0, 30)) + rng.range(1, 2)).into_bytes(),
        5 => format!("{}", 3u64 << rng.range(31, 40)).into_bytes(),
        6 => b"4294967296".to_vec(),
        7 => b"4294967295".to_vec(),
        8 => b"6442450944".to_vec(), // 3 << 31
        9 => format!("{}", rng.next()).into_bytes(),
        10 => {
            let mut v = format!("{}", 3u64 << rng.range(0, 30)).into_bytes();
            let i = rng.below(v.len() as u64 + 1) as usize;
            v.insert(i, [b'x', b' ', b'-', b'+', b':', b',', 0u8][rng.below(7) as usize]);
            v
        }
        11 => format!("{}", 1u64 << rng.range(0, 33)).into_bytes(),
        _ => format!("{}", 3u64 << rng.range(0, 30)).into_bytes(),
    }
}

pub fn gen_block_hash(rng: &mut Rng, cap: usize) -> Vec<u8> {
    // target raw length: small, around the capacity, beyond it
    let n = match rng.below(24) {
        0 => 0,
        1 | 2 => cap,
        3 => cap + 1,
        4 => cap - 1,
        5 | 6 => rng.range(cap as u64, cap as u64 + 40) as usize,
        7 => rng.range(0, 5) as usize,
        _ => rng.range(0, cap as u64) as usize,
    };
    let maxrun = match rng.below(4) {
        0 => 1,
        1 => 3,
        2 => 4,
        _ => 12,
    };
    let alpha: u64 = if rng.chance(1, 3) { 3 } else { 64 };
    let mut v: Vec<u8> = Vec::with_capacity(n + 16);
    while v.len() < n {
        let c = B64[rng.below(alpha) as usize];
        let r = rng.range(1, maxrun) as usize;
        for _ in 0..r {
            if v.len() < n {
                v.push(c);
            }
        }
    }
    if rng.chance(1, 25) && !v.is_empty() {
        let i = rng.below(v.len() as u64) as usize;
        v[i] = [b'=', b'-', b'_', b' ', 0u8, 0x80, b'\n', b'*'][rng.below(8) as usize];
    }
    v
}

pub fn gen_text(rng: &mut Rng, c1: usize, c2: usize) -> Vec<u8> {
    let mut t = gen_block_size(rng);
    let sep = |rng: &mut Rng| -> &'static [u8] {
        match rng.below(120) {
            0 => b"",
            1 => b"::",
            2 => b",",
            3 => b";",
            _ => b":",
        }
    };
    t.extend_from_slice(sep(rng));
    t.extend_from_slice(&gen_block_hash(rng, c1));
    t.extend_from_slice(sep(rng));
    t.extend_from_slice(&gen_block_hash(rng, c2));
    match rng.below(8) {
        0 => {
            t.push(b',');
        }
        1 => {
            t.extend_from_slice(b",\"file name, with: separators\"");
        }
        2 => {
            t.push(b':');
        }
        3 => {
            t.extend_from_slice(b"\n");
        }
        _ => {}
    }
    // byte-level mutation of the whole text
    if rng.chance(1, 10) && !t.is_empty() {
        match rng.below(4) {
            0 => {
                let i = rng.below(t.len() as u64) as usize;
                t[i] = rng.byte();
            }
            1 => {
                let i = rng.below(t.len() as u64) as usize;
                t.remove(i);
            }
            2 => {
                let i = rng.below(t.len() as u64 + 1) as usize;
                t.insert(i, rng.byte());
            }
            _ => {
                let i = rng.below(t.len() as u64 + 1) as usize;
                t.truncate(i);
            }
        }
    }
    if rng.chance(1, 60) {
        let n = rng.below(40) as usize;
        t = rng.bytes(n);
    }
    t
}

pub fn render_text(t: &[u8]) -> String {
    let mut s = String::with_capacity(t.len() + 2);
    s.push('<');
    for &c in t {
        if (0x21..0x7f).contains(&c) && c != b'\\' && c != b'<' && c != b'>' {
            s.push(c as char);
        } else {
            s.push_str(&format!("\\x{:02x}", c));
        }
    }
    s.push('>');
    s
}


// ---------------------------------------------------------------------------------------------------------------------
// input generator for the generator drivers (see generator_driver.rs)

/// independent re-statement of the rolling hash, only used to MAKE trigger-rich inputs (never compared)
pub struct Roll {
    w: [u8; 7],
    n: usize,
    h1: u32,
    h2: u32,
    h3: u32,
}

impl Roll {
    pub fn new() -> Roll {
        Roll { w: [0; 7], n: 0, h1: 0, h2: 0, h3: 0 }
    }
    pub fn peek(&self, c: u8) -> u32 {
        let h2 = self.h2.wrapping_sub(self.h1).wrapping_add(7u32.wrapping_mul(c as u32));
        let h1 = self.h1.wrapping_add(c as u32).wrapping_sub(self.w[self.n % 7] as u32);
        let h3 = (self.h3 << 5) ^ (c as u32);
        h1.wrapping_add(h2).wrapping_add(h3)
    }
    pub fn push(&mut self, c: u8) {
        self.h2 = self.h2.wrapping_sub(self.h1).wrapping_add(7u32.wrapping_mul(c as u32));
        self.h1 = self.h1.wrapping_add(c as u32).wrapping_sub(self.w[self.n % 7] as u32);
        self.w[self.n % 7] = c;
        self.n += 1;
        self.h3 = (self.h3 << 5) ^ (c as u32);
    }
}

pub fn gen_len(rng: &mut Rng) -> usize {
    match rng.below(20) {
        0 => 0,
        1 => rng.range(1, 7) as usize,
        2..=8 => rng.range(0, 200) as usize,
        9..=14 => rng.range(200, 3000) as usize,
        15..=17 => rng.range(3000, 9000) as usize,
        _ => rng.range(9000, 20000) as usize,
    }
}

pub fn gen_input(rng: &mut Rng) -> (&'static str, Vec<u8>) {
    let n = gen_len(rng);
    match rng.below(8) {
        0 | 1 => ("random", rng.bytes(n)),
        2 => {
            // zero-heavy: zero runs with sparse random bytes
            let mut v = vec![0u8; n];
            let k = rng.range(0, 1 + (n as u64) / 8);
            for _ in 0..k {
                if n > 0 {
                    let i = rng.below(n as u64) as usize;
                    v[i] = rng.byte();
                }
            }
            ("zeroheavy", v)
        }
        3 => {
            // repetitive: a short random period repeated
            let p = rng.range(1, 12) as usize;
            let pat = rng.bytes(p);
            ("repetitive", (0..n).map(|i| pat[i % p]).collect())
        }
        4 => {
            // low-entropy text-like
            ("lowent", (0..n).map(|_| b"ab \n"[rng.below(4) as usize]).collect())
        }
        _ => {
            // trigger-rich: very often pick a byte that ends a piece at level k
            let mut r = Roll::new();
            let mut v = Vec::with_capacity(n);
            let dens = rng.range(1, 4);
            let maxk = rng.range(0, 7);
            for _ in 0..n {
                let mut c = rng.byte();
                if rng.chance(dens, 4) {
                    let k = rng.range(0, maxk);
                    let bs: u32 = 3u32 << k;
                    let start = rng.byte();
                    for d in 0..=255u8 {
                        let cand = start.wrapping_add(d);
                        if r.peek(cand) % bs == bs - 1 {
                            c = cand;
                            break;
                        }
                    }
                }
                r.push(c);
                v.push(c);
            }
            ("triggers", v)
        }
    }
}

