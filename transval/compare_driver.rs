// transval/compare_driver.rs -- translation-validation driver for unit `compare`.
//
// Shared verbatim by both sides; names come from `mod tv` (compare_shim_extracted.rs / compare_shim_real.rs).
//
// Covered (objects: FuzzyHash (64,32) and LongFuzzyHash (64,64), built by new_from_internals_near_raw):
//   FuzzyHashCompareTarget::{new, Default::default, From<hash>, From<&hash>, init_from on a REUSED target, log_block_size,
//   block_size, block_hash_1, block_hash_2 (the returned `impl BlockHashPositionArrayImpl`: len, representation,
//   is_valid, is_valid_and_normalized, is_equiv, has_common_substring, edit_distance, score_strings_raw, score_strings),
//   full_eq, is_valid, is_equiv, compare, compare_unequal, compare_near_eq, compare_unequal_near_eq / _near_lt /
//   _near_gt, is_comparison_candidate, is_comparison_candidate_near_eq / _near_lt / _near_gt} -- every checked wrapper is
//   called for EVERY pair, so the ones whose block-size / inequality precondition does not hold show PANIC on both sides;
//   FuzzyHashData<_, _, true>::{compare, compare_unequal} (compare_optimized_internal, with the declared `From<&hash>` /
//   `PartialEq` substitutions);  block_size::{is_near_eq, is_near_lt, is_near_gt, compare_sizes} for logs 0..40
//   (debug assertions on the arguments).  Rule R11 (`impl AsRef<T>` parameters -> `&T`) is under test at every call.
//   Pairs: block sizes equal / neighbouring (both directions) / far; block hashes related ACROSS the pair the way the
//   block sizes demand (bh1~bh1 and bh2~bh2, bh2~bh1, bh1~bh2), sharing windows of 5..12 symbols, identical, one-edit
//   apart, or unrelated; lengths from 0 to capacity; log block sizes near 0 and near the capping border too.
// Reachability: the unit's external_body items (block_size::is_valid, log_from_valid_internal, consts with kept
//   initialisers) are not on any path below (objects are built from LOG block sizes).
// Not reachable on the real side (private): every `*_internal` method, block_hash_N_internal / _mut, init_from_partial,
//   is_equiv_except_block_size -- all run underneath the public calls.  raw_score_by_edit_distance /
//   score_cap_on_block_hash_comparison public wrappers belong to unit `misc`.
//
// One transcript line per case.

use tv::{BlockHashPositionArrayData, BlockHashPositionArrayImpl};

fn gen_norm(rng: &mut Rng, cap: usize) -> Vec<u8> {
    let n = match rng.below(10) {
        0 => 0,
        1 => cap,
        2 => rng.range(0, 8) as usize,
        _ => rng.range(0, cap as u64) as usize,
    };
    let alpha: u64 = match rng.below(4) {
        0 => 3,
        1 => 8,
        _ => 64,
    };
    let mut v: Vec<u8> = Vec::with_capacity(n);
    while v.len() < n {
        let mut c = rng.below(alpha) as u8;
        if v.last() == Some(&c) {
            c = (c + 1) % (alpha as u8);
        }
        let r = rng.range(1, 3) as usize;
        for _ in 0..r {
            if v.len() < n {
                v.push(c);
            }
        }
    }
    v
}

fn renorm(v: &[u8], cap: usize) -> Vec<u8> {
    let mut w: Vec<u8> = Vec::with_capacity(v.len());
    for &c in v.iter() {
        let k = w.len();
        if k >= 3 && w[k - 1] == c && w[k - 2] == c && w[k - 3] == c {
            continue;
        }
        if w.len() < cap {
            w.push(c);
        }
    }
    w
}

/// a normalized relative of `s` (fits `cap`)
fn relative(rng: &mut Rng, s: &[u8], cap: usize) -> Vec<u8> {
    let v: Vec<u8> = match rng.below(10) {
        0 | 1 => s.to_vec(),
        2 | 3 => {
            let mut v = s.to_vec();
            for _ in 0..rng.range(1, 3) {
                match rng.below(3) {
                    0 if !v.is_empty() => {
                        let i = rng.below(v.len() as u64) as usize;
                        v[i] = rng.below(64) as u8;
                    }
                    1 if !v.is_empty() => {
                        let i = rng.below(v.len() as u64) as usize;
                        v.remove(i);
                    }
                    _ => {
                        let i = rng.range(0, v.len() as u64) as usize;
                        v.insert(i, rng.below(64) as u8);
                    }
                }
            }
            v
        }
        4..=7 => {
            let mut v = gen_norm(rng, cap);
            if s.len() >= 5 {
                let w = rng.range(5, 12.min(s.len() as u64)) as usize;
                let a = rng.range(0, (s.len() - w) as u64) as usize;
                if v.len() < w {
                    v.resize(w, 0);
                }
                let b = rng.range(0, (v.len() - w) as u64) as usize;
                v[b..b + w].copy_from_slice(&s[a..a + w]);
            }
            v
        }
        _ => gen_norm(rng, cap),
    };
    renorm(&v, cap)
}

fn b(v: bool) -> char {
    if v { '1' } else { '0' }
}

fn pa_view<P: BlockHashPositionArrayData + BlockHashPositionArrayImpl>(p: &P, me: &[u8], other: &[u8], log: u8) -> String {
    let mut bytes = Vec::with_capacity(512);
    let rep = guard(|| {
        let mut bytes = Vec::with_capacity(512);
        for w in p.representation().iter() {
            bytes.extend_from_slice(&w.to_le_bytes());
        }
        bytes
    });
    if let Some(r) = rep {
        bytes = r;
    }
    format!("len={} rep={} v={} vn={} eqme={} eqo={} cs={} ed={} raw={} sc={}",
        show(|| p.len(), |v| v.to_string()), digest(&bytes),
        show(|| p.is_valid(), |v| b(*v).to_string()), show(|| p.is_valid_and_normalized(), |v| b(*v).to_string()),
        show(|| p.is_equiv(me), |v| b(*v).to_string()), show(|| p.is_equiv(other), |v| b(*v).to_string()),
        show(|| p.has_common_substring(other), |v| b(*v).to_string()),
        show(|| p.edit_distance(other), |v| v.to_string()),
        show(|| p.score_strings_raw(other), |v| v.to_string()),
        show(|| p.score_strings(other, log), |v| v.to_string()))
}

macro_rules! per_type {
    ($fname:ident, $ty:ty, $name:expr, $s1:expr, $s2:expr) => {
        fn $fname(rng: &mut Rng, target: &mut tv::FuzzyHashCompareTarget, prev: &mut tv::FuzzyHashCompareTarget, line: &mut String) {
            // block sizes: equal / neighbours / far, anywhere in 0..=30 with emphasis on the ends and the capping border
            let l1: u8 = match rng.below(6) {
                0 => 0,
                1 => 30,
                2 => rng.range(0, 6) as u8,
                _ => rng.range(0, 30) as u8,
            };
            let rel = rng.below(8);
            let l2: u8 = match rel {
                0..=2 => l1,
                3 | 4 => if l1 < 30 { l1 + 1 } else { l1 - 1 },
                5 | 6 => if l1 > 0 { l1 - 1 } else { l1 + 1 },
                _ => rng.range(0, 30) as u8,
            };
            let a1 = gen_norm(rng, $s1);
            let a2 = gen_norm(rng, $s2);
            // relate the second hash to the first the way the block sizes pair the block hashes up
            let (b1, b2) = if l2 == l1 {
                (relative(rng, &a1, $s1), relative(rng, &a2, $s2))
            } else if l2 == l1.wrapping_add(1) {
                // self.bh2 is compared with other.bh1
                (relative(rng, &a2, $s1), gen_norm(rng, $s2))
            } else if l1 == l2.wrapping_add(1) {
                // self.bh1 is compared with other.bh2
                (gen_norm(rng, $s1), relative(rng, &a1, $s2))
            } else {
                (relative(rng, &a1, $s1), relative(rng, &a2, $s2))
            };
            line.push_str(&format!(" {} A={}:{}:{} B={}:{}:{}", $name, l1, syms(&a1), syms(&a2), l2, syms(&b1), syms(&b2)));
            let ha = match guard(|| <$ty>::new_from_internals_near_raw(l1, &a1, &a2)) {
                Some(h) => h,
                None => {
                    line.push_str(" A=>PANIC");
                    return;
                }
            };
            let hb = match guard(|| <$ty>::new_from_internals_near_raw(l2, &b1, &b2)) {
                Some(h) => h,
                None => {
                    line.push_str(" B=>PANIC");
                    return;
                }
            };
            // the target of A: reused object (mostly), or a fresh one through the three constructors
            match rng.below(8) {
                0 => {
                    *target = tv::FuzzyHashCompareTarget::new();
                    let g = guard(|| target.init_from(&ha));
                    line.push_str(if g.is_some() { " new+init" } else { " new+init=PANIC" });
                }
                1 => match guard(|| tv::target_from(ha.clone())) {
                    Some(t) => {
                        *target = t;
                        line.push_str(" From(h)");
                    }
                    None => line.push_str(" From(h)=PANIC"),
                },
                2 => match guard(|| tv::target_from_ref(&ha)) {
                    Some(t) => {
                        *target = t;
                        line.push_str(" From(&h)");
                    }
                    None => line.push_str(" From(&h)=PANIC"),
                },
                3 => {
                    *target = tv::target_default();
                    let g = guard(|| target.init_from(&ha));
                    line.push_str(if g.is_some() { " default+init" } else { " default+init=PANIC" });
                }
                _ => {
                    let g = guard(|| target.init_from(&ha));
                    line.push_str(if g.is_some() { " init(reused)" } else { " init(reused)=PANIC" });
                }
            }
            let t: &tv::FuzzyHashCompareTarget = target;
            line.push_str(&format!(" lbs={} bs={} valid={} feq[{}{}] equiv[{}{}]",
                show(|| t.log_block_size(), |v| v.to_string()), show(|| t.block_size(), |v| v.to_string()),
                show(|| t.is_valid(), |v| b(*v).to_string()),
                show(|| t.full_eq(t), |v| b(*v).to_string()), show(|| t.full_eq(prev), |v| b(*v).to_string()),
                show(|| t.is_equiv(&ha), |v| b(*v).to_string()), show(|| t.is_equiv(&hb), |v| b(*v).to_string())));
            line.push_str(&format!(" pa1[{}]", show(|| pa_view(&t.block_hash_1(), &a1, &b1, l1), |s| s.clone())));
            line.push_str(&format!(" pa2[{}]", show(|| pa_view(&t.block_hash_2(), &a2, &b2, l1.min(30) + 1), |s| s.clone())));
            // every comparison entry point, on the pair (A as target, B as other)
            line.push_str(&format!(" cmp={} cmpu={} cne={} cune={} cunl={} cung={}",
                show(|| t.compare(&hb), |v| v.to_string()),
                show(|| t.compare_unequal(&hb), |v| v.to_string()),
                show(|| t.compare_near_eq(&hb), |v| v.to_string()),
                show(|| t.compare_unequal_near_eq(&hb), |v| v.to_string()),
                show(|| t.compare_unequal_near_lt(&hb), |v| v.to_string()),
                show(|| t.compare_unequal_near_gt(&hb), |v| v.to_string())));
            line.push_str(&format!(" cand={} cande={} candl={} candg={}",
                show(|| t.is_comparison_candidate(&hb), |v| b(*v).to_string()),
                show(|| t.is_comparison_candidate_near_eq(&hb), |v| b(*v).to_string()),
                show(|| t.is_comparison_candidate_near_lt(&hb), |v| b(*v).to_string()),
                show(|| t.is_comparison_candidate_near_gt(&hb), |v| b(*v).to_string())));
            // against itself
            line.push_str(&format!(" self: cmp={} cmpu={} cand={}",
                show(|| t.compare(&ha), |v| v.to_string()),
                show(|| t.compare_unequal(&ha), |v| v.to_string()),
                show(|| t.is_comparison_candidate(&ha), |v| b(*v).to_string())));
            // the hash-level entry points
            line.push_str(&format!(" h.cmp={} h.cmpu={} h.rev={} h.self={} h.selfu={}",
                show(|| ha.compare(&hb), |v| v.to_string()),
                show(|| ha.compare_unequal(&hb), |v| v.to_string()),
                show(|| hb.compare(&ha), |v| v.to_string()),
                show(|| ha.compare(&ha), |v| v.to_string()),
                show(|| ha.compare_unequal(&ha), |v| v.to_string())));
            // remember this target for the next case's full_eq
            *prev = tv::target_from_ref(&ha);
        }
    };
}

per_type!(cmp_short, tv::FuzzyHash, "FuzzyHash", 64, 32);
per_type!(cmp_long, tv::LongFuzzyHash, "LongFuzzyHash", 64, 64);

fn sizes_case(rng: &mut Rng, line: &mut String) {
    line.push_str(" sizes");
    for _ in 0..8 {
        let l: u8 = if rng.chance(1, 8) { rng.range(31, 40) as u8 } else { rng.range(0, 30) as u8 };
        let r: u8 = match rng.below(5) {
            0 => l,
            1 => l.wrapping_add(1),
            2 => l.wrapping_sub(1),
            _ => if rng.chance(1, 8) { rng.range(31, 255) as u8 } else { rng.range(0, 30) as u8 },
        };
        line.push_str(&format!(" ({},{}):eq={} lt={} gt={} rel={}", l, r,
            show(|| tv::is_near_eq(l, r), |v| b(*v).to_string()),
            show(|| tv::is_near_lt(l, r), |v| b(*v).to_string()),
            show(|| tv::is_near_gt(l, r), |v| b(*v).to_string()),
            show(|| tv::compare_sizes(l, r), |v| tv::rel_name(v).to_string())));
    }
}

pub fn tv_run(seed: u64, cases: u64, out: &mut Out) {
    out.line(&format!("# transval compare seed={} cases={}", seed, cases));
    let mut target = tv::FuzzyHashCompareTarget::new();
    let mut prev = tv::FuzzyHashCompareTarget::new();
    for case in 0..cases {
        let mut rng = Rng::for_case(seed, case);
        let mut line = format!("case={}", case);
        match case % 8 {
            7 => sizes_case(&mut rng, &mut line),
            1 | 4 => cmp_long(&mut rng, &mut target, &mut prev, &mut line),
            _ => cmp_short(&mut rng, &mut target, &mut prev, &mut line),
        }
        out.line(&line);
    }
}
