// names of unit `compare` items as the driver sees them (extracted side)
pub use crate::internals::compare::FuzzyHashCompareTarget;
pub use crate::internals::compare::position_array::{BlockHashPositionArrayData, BlockHashPositionArrayImpl};
pub use crate::internals::hash::FuzzyHashData;
pub use crate::internals::hash::block::BlockSizeRelation;
pub use crate::internals::hash::block::block_size::{compare_sizes, is_near_eq, is_near_gt, is_near_lt};
use crate::internals::hash::block::{BlockHashSize, BlockHashSizes, ConstrainedBlockHashSize, ConstrainedBlockHashSizes};

pub type FuzzyHash = FuzzyHashData<64, 32, true>;
pub type LongFuzzyHash = FuzzyHashData<64, 64, true>;

// `impl From<hash>` / `From<&hash>` / `Default` for the target are emitted as_inherent from_hash / from_hash_ref / default_
pub fn target_from<const S1: usize, const S2: usize>(h: FuzzyHashData<S1, S2, true>) -> FuzzyHashCompareTarget
where BlockHashSize<S1>: ConstrainedBlockHashSize, BlockHashSize<S2>: ConstrainedBlockHashSize, BlockHashSizes<S1, S2>: ConstrainedBlockHashSizes
{ FuzzyHashCompareTarget::from_hash(h) }
pub fn target_from_ref<const S1: usize, const S2: usize>(h: &FuzzyHashData<S1, S2, true>) -> FuzzyHashCompareTarget
where BlockHashSize<S1>: ConstrainedBlockHashSize, BlockHashSize<S2>: ConstrainedBlockHashSize, BlockHashSizes<S1, S2>: ConstrainedBlockHashSizes
{ FuzzyHashCompareTarget::from_hash_ref(h) }
pub fn target_default() -> FuzzyHashCompareTarget { FuzzyHashCompareTarget::default_() }

// (the unit's enum has no Debug derive)
pub fn rel_name(r: &BlockSizeRelation) -> &'static str {
    match r {
        BlockSizeRelation::NearLt => "NearLt",
        BlockSizeRelation::NearEq => "NearEq",
        BlockSizeRelation::NearGt => "NearGt",
        BlockSizeRelation::Far => "Far",
    }
}
