// names of the real crate's items as the driver sees them (real side)
pub use ssdeep::{BlockSizeRelation, FuzzyHash, FuzzyHashCompareTarget, FuzzyHashData, LongFuzzyHash};
pub use ssdeep::internal_comparison::{BlockHashPositionArrayData, BlockHashPositionArrayImpl};
pub use ssdeep::block_size::{compare_sizes, is_near_eq, is_near_gt, is_near_lt};
use ssdeep::constraints::{BlockHashSize, BlockHashSizes, ConstrainedBlockHashSize, ConstrainedBlockHashSizes};

pub fn target_from<const S1: usize, const S2: usize>(h: FuzzyHashData<S1, S2, true>) -> FuzzyHashCompareTarget
where BlockHashSize<S1>: ConstrainedBlockHashSize, BlockHashSize<S2>: ConstrainedBlockHashSize, BlockHashSizes<S1, S2>: ConstrainedBlockHashSizes
{ FuzzyHashCompareTarget::from(h) }
pub fn target_from_ref<const S1: usize, const S2: usize>(h: &FuzzyHashData<S1, S2, true>) -> FuzzyHashCompareTarget
where BlockHashSize<S1>: ConstrainedBlockHashSize, BlockHashSize<S2>: ConstrainedBlockHashSize, BlockHashSizes<S1, S2>: ConstrainedBlockHashSizes
{ FuzzyHashCompareTarget::from(h) }
pub fn target_default() -> FuzzyHashCompareTarget { <FuzzyHashCompareTarget as Default>::default() }

pub fn rel_name(r: &BlockSizeRelation) -> &'static str {
    match r {
        BlockSizeRelation::NearLt => "NearLt",
        BlockSizeRelation::NearEq => "NearEq",
        BlockSizeRelation::NearGt => "NearGt",
        BlockSizeRelation::Far => "Far",
    }
}
