// transval/dual_text_driver.rs -- translation-validation driver for units `hash_dual_text` (flag `text`), `hash_dual` and
// `hash_dual_strict` (flag `parse`; the latter extracted and built with `--features strict-parser`).
//
// Shared verbatim by both sides; names come from `mod tv` (dual_text_shim_extracted.rs / dual_text_shim_real.rs).
//
// Covered, for DualFuzzyHash (64,32,16,8) and LongDualFuzzyHash (64,64,16,16):
//   flag `text`:  Display::fmt through a real core::fmt::Formatter under eight format specifications (rule R20: the
//     `write!(f, "{{{}|{}}}", ..)` call replaced by the definition of core::fmt::write: literal pieces + the arguments'
//     Display impls in order), to_normalized_string, to_raw_form_string, on run-rich objects built by
//     new_from_internals_near_raw / from_raw_form;
//   flag `parse`: from_bytes, from_bytes_with_last_index (sentinel index), FromStr::from_str on generated texts (same
//     generator as parser_driver.rs); an accepted text is shown as normalized fields | raw-form fields | is_normalized |
//     is_valid  (the dual parser parses as the raw type and compresses: fix of finding F1).
// STUBBED with flag `parse` (not under test; see STUBS in tools/transval.py): block_size::is_valid,
//   block_size::log_from_valid_internal (external_body in the unit).
// Skipped: Debug::fmt (rules R18/R19: builder chain replaced by an assumed-total stub, nothing to compare).
//
// One transcript line per case.

use tv::TvDualText;

fn b(v: bool) -> char {
    if v { '1' } else { '0' }
}

//@if text
struct Shown<'a, T: TvDualText>(&'a T);
impl<T: TvDualText> core::fmt::Display for Shown<'_, T> {
    fn fmt(&self, f: &mut core::fmt::Formatter<'_>) -> core::fmt::Result {
        self.0.tv_fmt(f)
    }
}

fn gen_runs(rng: &mut Rng, cap: usize) -> Vec<u8> {
    let n = match rng.below(8) {
        0 => 0,
        1 | 2 => cap,
        _ => rng.range(0, cap as u64) as usize,
    };
    let maxrun = [1u64, 3, 4, 8, 12, 40][rng.below(6) as usize];
    let mut v: Vec<u8> = Vec::with_capacity(n);
    while v.len() < n {
        let mut c = rng.below(64) as u8;
        if v.last() == Some(&c) {
            c = (c + 1) % 64;
        }
        let r = rng.range(1, maxrun) as usize;
        for _ in 0..r {
            if v.len() < n {
                v.push(c);
            }
        }
    }
    v
}

fn text_case<T: TvDualText>(name: &str, c1: usize, c2: usize, rng: &mut Rng, line: &mut String) {
    let log = rng.range(0, 30) as u8;
    let s1 = gen_runs(rng, c1);
    let s2 = gen_runs(rng, c2);
    line.push_str(&format!(" {} {}:{}:{}", name, log, syms(&s1), syms(&s2)));
    let via_raw = rng.chance(1, 2);
    let d = match guard(|| if via_raw { T::tv_from_raw_parts(log, &s1, &s2) } else { T::tv_new(log, &s1, &s2) }) {
        Some(d) => d,
        None => {
            line.push_str(" => PANIC");
            return;
        }
    };
    line.push_str(&format!(" norm_str={} raw_str={}", show(|| d.tv_to_normalized_string(), |s| s.clone()),
                           show(|| d.tv_to_raw_form_string(), |s| s.clone())));
    macro_rules! spec {
        ($label:expr, $($fmt:tt)*) => {
            line.push_str(&format!(" {}=[{}]", $label, show(|| format!($($fmt)*, Shown(&d)), |s| s.clone())));
        };
    }
    spec!("{}", "{}");
    spec!("{:.0}", "{:.0}");
    spec!("{:.7}", "{:.7}");
    spec!("{:>200}", "{:>200}");
    spec!("{:<9}", "{:<9}");
    spec!("{:*^230}", "{:*^230}");
    spec!("{:#}", "{:#}");
    spec!("{:012.5}", "{:012.5}");
}
//@endif

//@if parse
fn res(r: &Result<tv::DualView, tv::ParseError>) -> String {
    match r {
        Ok(v) => format!("Ok({}|{}|n{}v{})", fields(&v.norm), fields(&v.raw), b(v.is_normalized), b(v.is_valid)),
        Err(e) => format!("Err({},{},{})", tv::err_kind(e), tv::err_origin(e), tv::err_offset(e)),
    }
}

fn parse_type<T: TvDualText>(name: &str, t: &[u8], line: &mut String) {
    let a = show(|| T::tv_from_bytes(t), res);
    let mut idx: usize = 0x5a5a;
    let r = guard(|| T::tv_from_bytes_with_last_index(t, &mut idx));
    let bb = match &r {
        Some(r) => format!("{}@{}", res(r), idx),
        None => format!("PANIC@{}", idx),
    };
    let c = match core::str::from_utf8(t) {
        Ok(s) => show(|| T::tv_from_str(s), res),
        Err(_) => String::from("-"),
    };
    line.push_str(&format!(" {}:{}", name, a));
    let a_idx = format!("{}@", a);
    if bb.starts_with(&a_idx) {
        line.push_str(&format!(" li=same{}", &bb[a.len()..]));
    } else {
        line.push_str(&format!(" li={}", bb));
    }
    if c == a {
        line.push_str(" str=same");
    } else {
        line.push_str(&format!(" str={}", c));
    }
}
//@endif

pub fn tv_run(seed: u64, cases: u64, out: &mut Out) {
    out.line(&format!("# transval dual_text seed={} cases={}", seed, cases));
    for case in 0..cases {
        let mut rng = Rng::for_case(seed, case);
        let mut line = format!("case={}", case);
        //@if text
        if case % 2 == 0 {
            text_case::<tv::DualFuzzyHash>("D", 64, 32, &mut rng, &mut line);
        } else {
            text_case::<tv::LongDualFuzzyHash>("LD", 64, 64, &mut rng, &mut line);
        }
        //@endif
        //@if parse
        let long = rng.chance(1, 2);
        let t = gen_text(&mut rng, 64, if long { 64 } else { 32 });
        line.push_str(&format!(" len={} {}", t.len(), render_text(&t)));
        parse_type::<tv::DualFuzzyHash>("D", &t, &mut line);
        parse_type::<tv::LongDualFuzzyHash>("LD", &t, &mut line);
        //@endif
        out.line(&line);
    }
}
