// names of units `hash_dual_text` / `hash_dual` / `hash_dual_strict` items as the driver sees them (extracted side)
pub use crate::internals::hash::FuzzyHashData;
pub use crate::internals::hash_dual::FuzzyHashDualData;
use crate::internals::hash_dual::ReconstructionBlockSize;
use crate::tv_driver::HashFields;
//@if parse
pub use crate::internals::hash::parser_state::ParseError;
//@endif

pub type FuzzyHash = FuzzyHashData<64, 32, true>;
pub type RawFuzzyHash = FuzzyHashData<64, 32, false>;
pub type LongFuzzyHash = FuzzyHashData<64, 64, true>;
pub type LongRawFuzzyHash = FuzzyHashData<64, 64, false>;
pub type DualFuzzyHash = FuzzyHashDualData<64, 32, 16, 8>;
pub type LongDualFuzzyHash = FuzzyHashDualData<64, 64, 16, 16>;

// sealed marker impls left out of the unit (const arithmetic in impl headers), restated with the evaluated sizes so that the
// dual types can be instantiated (see hash_dual_obj_shim_extracted.rs)
impl crate::internals::hash_dual::private::SealedReconstructionBlockSize for ReconstructionBlockSize<64, 16> {}
impl crate::internals::hash_dual::private::SealedReconstructionBlockSize for ReconstructionBlockSize<32, 8> {}

//@if parse
pub fn err_kind(e: &ParseError) -> String { format!("{:?}", e.0) }
pub fn err_origin(e: &ParseError) -> String { format!("{:?}", e.1) }
pub fn err_offset(e: &ParseError) -> usize { e.2 }
//@endif

// fields are pub in the unit
macro_rules! hf {
    ($h:expr) => {
        HashFields { log: $h.log_blocksize, bh1: $h.blockhash1.to_vec(), len1: $h.len_blockhash1 as usize,
                     bh2: $h.blockhash2.to_vec(), len2: $h.len_blockhash2 as usize }
    };
}

//@if parse
/// what an accepted text turned into
pub struct DualView {
    pub norm: HashFields,
    pub raw: HashFields,
    pub is_normalized: bool,
    pub is_valid: bool,
}
//@endif

pub trait TvDualText: Sized {
    //@if text
    fn tv_new(log: u8, s1: &[u8], s2: &[u8]) -> Self;
    fn tv_from_raw_parts(log: u8, s1: &[u8], s2: &[u8]) -> Self;
    fn tv_to_normalized_string(&self) -> String;
    fn tv_to_raw_form_string(&self) -> String;
    fn tv_fmt(&self, f: &mut core::fmt::Formatter<'_>) -> core::fmt::Result;
    //@endif
    //@if parse
    fn tv_view(&self) -> DualView;
    fn tv_from_bytes(t: &[u8]) -> Result<DualView, ParseError>;
    fn tv_from_bytes_with_last_index(t: &[u8], index: &mut usize) -> Result<DualView, ParseError>;
    fn tv_from_str(s: &str) -> Result<DualView, ParseError>;
    //@endif
}
macro_rules! tv_dual_text {
    ($dual:ty, $raw:ty) => {
        impl TvDualText for $dual {
            //@if text
            fn tv_new(log: u8, s1: &[u8], s2: &[u8]) -> Self { <$dual>::new_from_internals_near_raw(log, s1, s2) }
            fn tv_from_raw_parts(log: u8, s1: &[u8], s2: &[u8]) -> Self {
                <$dual>::from_raw_form(&<$raw>::new_from_internals_near_raw(log, s1, s2))
            }
            fn tv_to_normalized_string(&self) -> String { self.to_normalized_string() }
            fn tv_to_raw_form_string(&self) -> String { self.to_raw_form_string() }
            // `impl Display` is emitted as_inherent fmt_display_dual
            fn tv_fmt(&self, f: &mut core::fmt::Formatter<'_>) -> core::fmt::Result { self.fmt_display_dual(f) }
            //@endif
            //@if parse
            fn tv_view(&self) -> DualView {
                let n = self.as_normalized();
                let r = self.to_raw_form();
                DualView { norm: hf!(n), raw: hf!(r), is_normalized: self.is_normalized(), is_valid: self.is_valid() }
            }
            fn tv_from_bytes(t: &[u8]) -> Result<DualView, ParseError> { <$dual>::from_bytes(t).map(|d| d.tv_view()) }
            fn tv_from_bytes_with_last_index(t: &[u8], index: &mut usize) -> Result<DualView, ParseError> {
                <$dual>::from_bytes_with_last_index(t, index).map(|d| d.tv_view())
            }
            // `impl FromStr` is emitted as_inherent from_str_impl
            fn tv_from_str(s: &str) -> Result<DualView, ParseError> { <$dual>::from_str_impl(s).map(|d| d.tv_view()) }
            //@endif
        }
    };
}
tv_dual_text!(DualFuzzyHash, RawFuzzyHash);
tv_dual_text!(LongDualFuzzyHash, LongRawFuzzyHash);
