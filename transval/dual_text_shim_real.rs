// names of the real crate's items as the driver sees them (real side)
pub use ssdeep::{DualFuzzyHash, FuzzyHash, LongDualFuzzyHash, LongFuzzyHash, LongRawFuzzyHash, RawFuzzyHash};
use crate::tv_driver::HashFields;
//@if parse
pub use ssdeep::ParseError;
use ssdeep::ParseErrorInfo;

pub fn err_kind(e: &ParseError) -> String { format!("{:?}", e.kind()) }
pub fn err_origin(e: &ParseError) -> String { format!("{:?}", e.origin()) }
pub fn err_offset(e: &ParseError) -> usize { e.offset() }
//@endif

// public accessors
macro_rules! hf {
    ($h:expr) => {
        HashFields { log: $h.log_block_size(), bh1: $h.block_hash_1_as_array().to_vec(), len1: $h.block_hash_1_len(),
                     bh2: $h.block_hash_2_as_array().to_vec(), len2: $h.block_hash_2_len() }
    };
}

//@if parse
/// what an accepted text turned into
pub struct DualView {
    pub norm: HashFields,
    pub raw: HashFields,
    pub is_normalized: bool,
    pub is_valid: bool,
}
//@endif

pub trait TvDualText: Sized {
    //@if text
    fn tv_new(log: u8, s1: &[u8], s2: &[u8]) -> Self;
    fn tv_from_raw_parts(log: u8, s1: &[u8], s2: &[u8]) -> Self;
    fn tv_to_normalized_string(&self) -> String;
    fn tv_to_raw_form_string(&self) -> String;
    fn tv_fmt(&self, f: &mut core::fmt::Formatter<'_>) -> core::fmt::Result;
    //@endif
    //@if parse
    fn tv_view(&self) -> DualView;
    fn tv_from_bytes(t: &[u8]) -> Result<DualView, ParseError>;
    fn tv_from_bytes_with_last_index(t: &[u8], index: &mut usize) -> Result<DualView, ParseError>;
    fn tv_from_str(s: &str) -> Result<DualView, ParseError>;
    //@endif
}
macro_rules! tv_dual_text {
    ($dual:ty, $raw:ty) => {
        impl TvDualText for $dual {
            //@if text
            fn tv_new(log: u8, s1: &[u8], s2: &[u8]) -> Self { <$dual>::new_from_internals_near_raw(log, s1, s2) }
            fn tv_from_raw_parts(log: u8, s1: &[u8], s2: &[u8]) -> Self {
                <$dual>::from_raw_form(&<$raw>::new_from_internals_near_raw(log, s1, s2))
            }
            fn tv_to_normalized_string(&self) -> String { self.to_normalized_string() }
            fn tv_to_raw_form_string(&self) -> String { self.to_raw_form_string() }
            fn tv_fmt(&self, f: &mut core::fmt::Formatter<'_>) -> core::fmt::Result { core::fmt::Display::fmt(self, f) }
            //@endif
            //@if parse
            fn tv_view(&self) -> DualView {
                let n = self.as_normalized();
                let r = self.to_raw_form();
                DualView { norm: hf!(n), raw: hf!(r), is_normalized: self.is_normalized(), is_valid: self.is_valid() }
            }
            fn tv_from_bytes(t: &[u8]) -> Result<DualView, ParseError> { <$dual>::from_bytes(t).map(|d| d.tv_view()) }
            fn tv_from_bytes_with_last_index(t: &[u8], index: &mut usize) -> Result<DualView, ParseError> {
                <$dual>::from_bytes_with_last_index(t, index).map(|d| d.tv_view())
            }
            fn tv_from_str(s: &str) -> Result<DualView, ParseError> { <$dual as core::str::FromStr>::from_str(s).map(|d| d.tv_view()) }
            //@endif
        }
    };
}
tv_dual_text!(DualFuzzyHash, RawFuzzyHash);
tv_dual_text!(LongDualFuzzyHash, LongRawFuzzyHash);
