// transval/easy_driver.rs -- translation-validation driver for unit `easy` (which @includes generator.vc).
//
// Shared verbatim by both sides; names come from `mod tv` (easy_shim_extracted.rs / easy_shim_real.rs).
//
// Covered: hash_buf; hash_stream over a scripted `std::io::Read` implementor (full reads, short reads of every size
//   including 0-length buffers never, reads that return fewer bytes than asked, an early `Ok(0)`, and failures of kind
//   Interrupted / WouldBlock / Other at any point -- the declared `?` substitution returns them as
//   GeneratorOrIOError::IOError), with the number of `read` calls and of bytes handed out shown; hash_file on files written
//   by the driver under $TV_TMPDIR (set by tools/transval.py to the unit's work directory), on a missing path and on a
//   directory; the two From impls of GeneratorOrIOError (through `?`).
//   Underneath: hash_stream_common, Generator::{new, set_fixed_input_size, update, finalize}.
// Not covered: inputs larger than 20000 bytes (so InputSizeTooLarge / FixedSizeTooLarge never occur), Display / Error
//   impls of GeneratorOrIOError (not in the unit).
//
// One transcript line per case.

use std::io::Read;

struct ScriptReader<'a> {
    data: &'a [u8],
    pos: usize,
    /// per call: Some(max bytes to hand out) or None = fail with `fail_kind`
    script: Vec<Option<usize>>,
    call: usize,
    fail_kind: std::io::ErrorKind,
    calls: usize,
}

impl<'a> Read for ScriptReader<'a> {
    fn read(&mut self, buf: &mut [u8]) -> std::io::Result<usize> {
        self.calls += 1;
        let step = if self.call < self.script.len() { self.script[self.call] } else { Some(usize::MAX) };
        self.call += 1;
        match step {
            None => Err(std::io::Error::new(self.fail_kind, "scripted failure")),
            Some(m) => {
                let n = m.min(buf.len()).min(self.data.len() - self.pos);
                buf[..n].copy_from_slice(&self.data[self.pos..self.pos + n]);
                self.pos += n;
                Ok(n)
            }
        }
    }
}

fn res(r: &Result<HashFields, tv::EasyError>) -> String {
    match r {
        Ok(f) => format!("Ok({})", fields(f)),
        Err(tv::EasyError::Generator(s)) => format!("Err(Generator({}))", s),
        Err(tv::EasyError::Io(k)) => format!("Err(IO({}))", k),
    }
}

pub fn tv_run(seed: u64, cases: u64, out: &mut Out) {
    out.line(&format!("# transval easy seed={} cases={}", seed, cases));
    let tmp = std::env::var("TV_TMPDIR").ok();
    for case in 0..cases {
        let mut rng = Rng::for_case(seed, case);
        let (kind, data) = gen_input(&mut rng);
        let mut line = format!("case={} {} len={} dig={}", case, kind, data.len(), digest(&data));
        line.push_str(&format!(" buf={}", show(|| tv::hash_buf(&data), res)));
        // scripted stream
        let nsteps = rng.range(0, 12) as usize;
        let mut script: Vec<Option<usize>> = Vec::with_capacity(nsteps);
        for _ in 0..nsteps {
            script.push(match rng.below(12) {
                0 => None,
                1 => Some(0), // looks like end of stream
                2 => Some(1),
                3 => Some(rng.range(1, 100) as usize),
                4 => Some(32768),
                5 => Some(32767),
                _ => Some(rng.range(1, 40000) as usize),
            });
        }
        let fail_kind = [std::io::ErrorKind::Interrupted, std::io::ErrorKind::WouldBlock, std::io::ErrorKind::Other,
                         std::io::ErrorKind::UnexpectedEof][rng.below(4) as usize];
        let desc: Vec<String> = script.iter().map(|s| match s {
            None => String::from("E"),
            Some(n) => n.to_string(),
        }).collect();
        let mut rd = ScriptReader { data: &data, pos: 0, script, call: 0, fail_kind, calls: 0 };
        let r = guard(|| tv::hash_stream(&mut rd));
        line.push_str(&format!(" stream[{}|{:?}]={} calls={} taken={}", desc.join(","), fail_kind,
                               match &r { Some(r) => res(r), None => String::from("PANIC") }, rd.calls, rd.pos));
        // files
        if let Some(dir) = tmp.as_ref() {
            if case % 4 == 0 {
                let path = std::path::Path::new(dir).join(format!("tv_easy_{}.bin", std::process::id()));
                let which = rng.below(8);
                let r = match which {
                    0 => {
                        let missing = std::path::Path::new(dir).join("tv_easy_missing.bin");
                        guard(|| tv::hash_file(&missing))
                    }
                    1 => guard(|| tv::hash_file(std::path::Path::new(dir))),
                    _ => {
                        let w = std::fs::write(&path, &data).is_ok();
                        let r = if w { guard(|| tv::hash_file(&path)) } else { None };
                        let _ = std::fs::remove_file(&path);
                        r
                    }
                };
                line.push_str(&format!(" file[{}]={}", which.min(2), match &r { Some(r) => res(r), None => String::from("PANIC") }));
            }
        }
        out.line(&line);
    }
}
