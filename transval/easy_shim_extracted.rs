// names of unit `easy` items as the driver sees them (extracted side)
use crate::internals::generate::GeneratorError;
use crate::internals::generate_easy_std::GeneratorOrIOError;
use crate::internals::hash::RawFuzzyHash;
use crate::tv_driver::HashFields;

/// side-independent rendering of the two error enums
pub enum EasyError {
    Generator(String),
    Io(String),
}

// fields are pub in the unit
fn f(h: RawFuzzyHash) -> HashFields {
    HashFields { log: h.log_blocksize, bh1: h.blockhash1.to_vec(), len1: h.len_blockhash1 as usize,
                 bh2: h.blockhash2.to_vec(), len2: h.len_blockhash2 as usize }
}
fn g(e: GeneratorError) -> EasyError { EasyError::Generator(format!("{:?}", e)) }
fn e(e: GeneratorOrIOError) -> EasyError {
    match e {
        GeneratorOrIOError::GeneratorError(x) => g(x),
        GeneratorOrIOError::IOError(x) => EasyError::Io(format!("{:?}", x.kind())),
    }
}

pub fn hash_buf(b: &[u8]) -> Result<HashFields, EasyError> { crate::internals::generate_easy::hash_buf(b).map(f).map_err(g) }
pub fn hash_stream<R: std::io::Read>(r: &mut R) -> Result<HashFields, EasyError> {
    crate::internals::generate_easy_std::hash_stream(r).map(f).map_err(e)
}
pub fn hash_file(p: &std::path::Path) -> Result<HashFields, EasyError> {
    crate::internals::generate_easy_std::hash_file(p).map(f).map_err(e)
}
