// names of the real crate's items as the driver sees them (real side)
use ssdeep::{GeneratorError, GeneratorOrIOError, RawFuzzyHash};
use crate::tv_driver::HashFields;

pub enum EasyError {
    Generator(String),
    Io(String),
}

// public accessors
fn f(h: RawFuzzyHash) -> HashFields {
    HashFields { log: h.log_block_size(), bh1: h.block_hash_1_as_array().to_vec(), len1: h.block_hash_1_len(),
                 bh2: h.block_hash_2_as_array().to_vec(), len2: h.block_hash_2_len() }
}
fn g(e: GeneratorError) -> EasyError { EasyError::Generator(format!("{:?}", e)) }
fn e(e: GeneratorOrIOError) -> EasyError {
    match e {
        GeneratorOrIOError::GeneratorError(x) => g(x),
        GeneratorOrIOError::IOError(x) => EasyError::Io(format!("{:?}", x.kind())),
    }
}

pub fn hash_buf(b: &[u8]) -> Result<HashFields, EasyError> { ssdeep::hash_buf(b).map(f).map_err(g) }
pub fn hash_stream<R: std::io::Read>(r: &mut R) -> Result<HashFields, EasyError> { ssdeep::hash_stream(r).map(f).map_err(e) }
pub fn hash_file(p: &std::path::Path) -> Result<HashFields, EasyError> { ssdeep::hash_file(p).map(f).map_err(e) }
