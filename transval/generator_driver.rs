// transval/generator_driver.rs -- translation-validation driver for units `generator` and `generator_unsafe`
// (the latter extracted with `--features unsafe`: rule R17 models the raw pointers of the update loops as indices; the
// real side is then built with `features = ["unsafe"]`, i.e. it runs the genuine pointer code).
//
// Shared verbatim by both sides; names come from `mod tv` (generator_shim_extracted.rs / generator_shim_real.rs).
//
// Covered: Generator::{new, reset, input_size, may_warn_about_small_input_size, set_fixed_input_size,
//   set_fixed_input_size_in_usize, update, update_by_byte, update_by_iter (exact, adapted and inexact iterators),
//   AddAssign<&[u8]>, AddAssign<&[u8; N]>, AddAssign<u8>, finalize, finalize_without_truncation,
//   finalize_raw::<TRUNC, 64, 32|64>} and everything they call (BlockHashContext::{new, reset},
//   get_log_block_size_from_input_size, guess_output_log_block_size, finalize_raw_internal, guessed_preferred_max_input_size_at,
//   RollingHash / PartialFNVHash, FuzzyHashData::new, utils::u64_ilog2, block_size::from_log_internal_const),
//   the constants MAX_INPUT_SIZE / MIN_RECOMMENDED_INPUT_SIZE; Clone of a used generator (real: derive(Clone);
//   extracted: the tuple struct rebuilt from its Copy payload).
// Inputs: random, zero-heavy, repetitive (short period) and trigger-rich byte strings (bytes chosen so that the rolling
//   hash hits `h % (3 << k) == (3 << k) - 1` very often: block hashes fill up, levels fork and get eliminated early),
//   lengths 0..20000, fed in random chunkings through random update forms, on reused objects (reset, clone).
// With flag `misc` (configuration `misc_gen_g`: unit misc_gen = generator.vc + the small functions): additionally
//   Default::default for Generator and GeneratorError::is_size_too_large_error.
// Not reachable / skipped:
//   * input sizes beyond what can be fed (tens of GiB: the upper levels of the fork/elimination logic at log block size
//     > ~8, InputSizeTooLarge) -- the real crate's hook `verif_after_zero_bytes` is cfg-gated and has no extracted twin;
//     declared sizes (set_fixed_input_size) up to and beyond MAX_INPUT_SIZE ARE exercised.
//   * GeneratorError's Display impl, Default (unit misc_gen) -- not in these units.
//
// One transcript line per case.

// (the input generator `gen_input` -- random / zero-heavy / repetitive / low-entropy / trigger-rich byte strings -- lives in
// common.rs: it is shared with the easy-function driver)

fn r_unit(r: &Result<(), tv::GeneratorError>) -> String {
    match r {
        Ok(()) => String::from("Ok"),
        //@if misc
        Err(e) => format!("Err({:?};large={})", e, e.is_size_too_large_error() as u8),
        //@else
        Err(e) => format!("Err({:?})", e),
        //@endif
    }
}

fn r_hash(r: Result<HashFields, tv::GeneratorError>) -> String {
    match r {
        Ok(f) => format!("Ok({})", fields(&f)),
        Err(e) => format!("Err({:?})", e),
    }
}

fn finals(g: &tv::Generator) -> String {
    let a = show(|| g.finalize().map(|h| tv::raw_fields(&h)), |r| r_hash(r.clone()));
    let b = show(|| g.finalize_without_truncation().map(|h| tv::long_fields(&h)), |r| r_hash(r.clone()));
    format!("fin={} nt={}", a, b)
}

fn finals_raw(g: &tv::Generator) -> String {
    let a = show(|| g.finalize_raw::<true, 64, 32>().map(|h| tv::raw_fields(&h)), |r| r_hash(r.clone()));
    let b = show(|| g.finalize_raw::<false, 64, 32>().map(|h| tv::raw_fields(&h)), |r| r_hash(r.clone()));
    let c = show(|| g.finalize_raw::<true, 64, 64>().map(|h| tv::long_fields(&h)), |r| r_hash(r.clone()));
    let d = show(|| g.finalize_raw::<false, 64, 64>().map(|h| tv::long_fields(&h)), |r| r_hash(r.clone()));
    format!("rawT32={} rawF32={} rawT64={} rawF64={}", a, b, c, d)
}

fn state(g: &tv::Generator) -> String {
    format!("size={} warn={}", show(|| g.input_size(), |v| v.to_string()),
            show(|| g.may_warn_about_small_input_size(), |v| (*v as u8).to_string()))
}

struct Inexact<'a>(&'a [u8], usize);
impl<'a> Iterator for Inexact<'a> {
    type Item = u8;
    fn next(&mut self) -> Option<u8> {
        if self.1 < self.0.len() {
            self.1 += 1;
            Some(self.0[self.1 - 1])
        } else {
            None
        }
    }
}

fn pick_fixed_size(rng: &mut Rng, total: usize) -> u64 {
    match rng.below(16) {
        0..=9 => total as u64,
        10 => (total as u64).wrapping_add(rng.range(1, 5)),
        11 => (total as u64).saturating_sub(rng.range(1, 5)),
        12 => tv::MAX_INPUT_SIZE,
        13 => tv::MAX_INPUT_SIZE + rng.range(1, 3),
        14 => 192u64 << rng.range(0, 31), // the level borders
        _ => (192u64 << rng.range(0, 30)) + rng.range(0, 2),
    }
}

/// feed `data` into `g` in random chunks through random update forms; returns a compact description
fn feed(rng: &mut Rng, g: &mut tv::Generator, data: &[u8], line: &mut String) -> bool {
    let mut pos = 0usize;
    let style = rng.below(6); // 0: one call, 1: tiny chunks, 2: big chunks, else mixed
    let mut nchunks = 0u32;
    while pos < data.len() || (nchunks == 0 && data.is_empty()) {
        let rest = data.len() - pos;
        let want = match style {
            0 => rest,
            1 => rng.range(0, 9) as usize,
            2 => rng.range(1, 4096) as usize,
            _ => match rng.below(5) {
                0 => rng.range(0, 3) as usize,
                1 => rng.range(0, 64) as usize,
                2 => rng.range(0, 700) as usize,
                3 => 1,
                _ => rng.range(0, 8000) as usize,
            },
        };
        let n = want.min(rest);
        let chunk = &data[pos..pos + n];
        let form = rng.below(8);
        let (tag, r) = match form {
            0 | 1 => ("u", guard(|| { g.update(chunk); })),
            2 => ("i", guard(|| { g.update_by_iter(chunk.iter().copied()); })),
            3 => {
                let h = n / 2;
                ("ia", guard(|| { g.update_by_iter(chunk[..h].iter().map(|x| *x).chain(chunk[h..].iter().copied())); }))
            }
            4 => ("ix", guard(|| { g.update_by_iter(Inexact(chunk, 0)); })),
            5 => ("+s", guard(|| tv::add_slice(g, chunk))),
            6 => {
                // byte-wise forms (only for short chunks, otherwise as one chained call sequence)
                if n <= 64 {
                    let plus = rng.chance(1, 2);
                    (if plus { "+b" } else { "b" }, guard(|| {
                        for &c in chunk {
                            if plus { tv::add_byte(g, c) } else { g.update_by_byte(c); }
                        }
                    }))
                } else {
                    let h = n / 2;
                    ("chain", guard(|| { g.update(&chunk[..h]).update_by_byte(chunk[h]).update(&chunk[h + 1..]); }))
                }
            }
            _ => {
                // array form for the sizes we instantiate, otherwise slice
                match n {
                    0 => ("+a", guard(|| { let a: [u8; 0] = []; tv::add_array(g, &a) })),
                    1 => ("+a", guard(|| { let mut a = [0u8; 1]; a.copy_from_slice(chunk); tv::add_array(g, &a) })),
                    7 => ("+a", guard(|| { let mut a = [0u8; 7]; a.copy_from_slice(chunk); tv::add_array(g, &a) })),
                    64 => ("+a", guard(|| { let mut a = [0u8; 64]; a.copy_from_slice(chunk); tv::add_array(g, &a) })),
                    _ if n >= 100 => {
                        let mut a = [0u8; 100];
                        a.copy_from_slice(&chunk[..100]);
                        let r = guard(|| { tv::add_array(g, &a); g.update(&chunk[100..]); });
                        ("+a100u", r)
                    }
                    _ => ("u", guard(|| { g.update(chunk); })),
                }
            }
        };
        nchunks += 1;
        if nchunks <= 12 {
            line.push_str(&format!(" {}{}", tag, n));
        } else if nchunks == 13 {
            line.push_str(" ..");
        }
        if r.is_none() {
            line.push_str(" PANIC");
            return false;
        }
        pos += n;
        // occasionally observe the state in mid-stream (finalize does not consume)
        if rng.chance(1, 40) {
            line.push_str(&format!(" [@{} {} {}]", pos, state(g), finals(g)));
        }
        if data.is_empty() {
            break;
        }
    }
    line.push_str(&format!(" chunks={}", nchunks));
    true
}

fn one_case(seed: u64, case: u64, g: &mut tv::Generator, out: &mut Out) {
    let mut rng = Rng::for_case(seed, case);
    let (kind, data) = gen_input(&mut rng);
    let mut line = format!("case={} {} len={} dig={}", case, kind, data.len(), digest(&data));
    // reuse policy: keep the used object and reset() it (most cases), start from new(), or keep feeding (no reset)
    let policy = rng.below(10);
    let mut expected_prefix = false;
    match policy {
        //@if misc
        0 => {
            *g = tv::default_gen();
            line.push_str(" default");
        }
        1 => {
            *g = tv::Generator::new();
            line.push_str(" new");
        }
        //@else
        0 | 1 => {
            *g = tv::Generator::new();
            line.push_str(" new");
        }
        //@endif
        2 => {
            line.push_str(" continue");
            expected_prefix = true;
        }
        _ => {
            let r = guard(|| g.reset());
            line.push_str(if r.is_some() { " reset" } else { " reset=PANIC" });
        }
    }
    let _ = expected_prefix;
    // what the total input size will be after this case (a `continue` case keeps counting)
    let total = (guard(|| g.input_size()).unwrap_or(0) as usize).saturating_add(data.len());
    line.push_str(&format!(" {}", state(g)));
    // declared size: before, in the middle, after, twice, never
    let when = rng.below(8);
    if when == 0 || when == 1 || when == 6 {
        let s = pick_fixed_size(&mut rng, total);
        let r = if rng.chance(1, 4) && s <= usize::MAX as u64 {
            show(|| g.set_fixed_input_size_in_usize(s as usize), r_unit)
        } else {
            show(|| g.set_fixed_input_size(s), r_unit)
        };
        line.push_str(&format!(" fix({})={}", s, r));
    }
    let ok;
    if when == 2 && data.len() >= 2 {
        let cut = rng.range(0, data.len() as u64) as usize;
        let ok1 = feed(&mut rng, g, &data[..cut], &mut line);
        let s = pick_fixed_size(&mut rng, total);
        line.push_str(&format!(" fix({})={}", s, show(|| g.set_fixed_input_size(s), r_unit)));
        ok = ok1 && feed(&mut rng, g, &data[cut..], &mut line);
    } else {
        ok = feed(&mut rng, g, &data, &mut line);
    }
    if when == 3 || when == 6 {
        let s = pick_fixed_size(&mut rng, total);
        line.push_str(&format!(" fix({})={}", s, show(|| g.set_fixed_input_size(s), r_unit)));
    }
    if !ok {
        *g = tv::Generator::new();
        out.line(&line);
        return;
    }
    line.push_str(&format!(" | {} {}", state(g), finals(g)));
    if rng.chance(1, 3) {
        line.push_str(&format!(" {}", finals_raw(g)));
    }
    if rng.chance(1, 6) {
        // a clone of a used generator continues identically
        let mut c = tv::clone_gen(g);
        let nx = rng.range(0, 300) as usize;
        let extra = rng.bytes(nx);
        let r = guard(|| { c.update(&extra); });
        line.push_str(&format!(" clone+{}={} {}", extra.len(), if r.is_some() { finals(&c) } else { String::from("PANIC") }, state(&c)));
        line.push_str(&format!(" orig:{}", finals(g)));
    }
    out.line(&line);
}

pub fn tv_run(seed: u64, cases: u64, out: &mut Out) {
    out.line(&format!("# transval generator seed={} cases={} MAX_INPUT_SIZE={} MIN_RECOMMENDED_INPUT_SIZE={}", seed, cases,
                      tv::MAX_INPUT_SIZE, tv::MIN_RECOMMENDED_INPUT_SIZE));
    let mut g = tv::Generator::new();
    out.line(&format!("fresh {} {} {}", state(&g), finals(&g), finals_raw(&g)));
    for case in 0..cases {
        one_case(seed, case, &mut g, out);
    }
}
