// names of unit `generator` / `generator_unsafe` items as the driver sees them (extracted side)
pub use crate::internals::generate::{Generator, GeneratorError};
pub use crate::internals::hash::{LongRawFuzzyHash, RawFuzzyHash};
use crate::tv_driver::HashFields;

pub const MAX_INPUT_SIZE: u64 = Generator::MAX_INPUT_SIZE;
pub const MIN_RECOMMENDED_INPUT_SIZE: u64 = Generator::MIN_RECOMMENDED_INPUT_SIZE;

// AddAssign impls are emitted `as_inherent add_assign_slice / add_assign_array / add_assign_byte`
pub fn add_slice(g: &mut Generator, s: &[u8]) { g.add_assign_slice(s) }
pub fn add_byte(g: &mut Generator, b: u8) { g.add_assign_byte(b) }
pub fn add_array<const N: usize>(g: &mut Generator, a: &[u8; N]) { g.add_assign_array(a) }

// the real type derives Clone; the unit keeps the tuple struct without the derive, its payload is Copy
//@if misc
// `impl Default` is emitted as_inherent default_
pub fn default_gen() -> Generator { Generator::default_() }
//@endif

pub fn clone_gen(g: &Generator) -> Generator { Generator(g.0) }

// fields are pub in the unit
pub fn raw_fields(h: &RawFuzzyHash) -> HashFields {
    HashFields { log: h.log_blocksize, bh1: h.blockhash1.to_vec(), len1: h.len_blockhash1 as usize,
                 bh2: h.blockhash2.to_vec(), len2: h.len_blockhash2 as usize }
}
pub fn long_fields(h: &LongRawFuzzyHash) -> HashFields {
    HashFields { log: h.log_blocksize, bh1: h.blockhash1.to_vec(), len1: h.len_blockhash1 as usize,
                 bh2: h.blockhash2.to_vec(), len2: h.len_blockhash2 as usize }
}
