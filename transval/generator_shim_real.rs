// names of the real crate's items as the driver sees them (real side)
pub use ssdeep::{Generator, GeneratorError, LongRawFuzzyHash, RawFuzzyHash};
use crate::tv_driver::HashFields;

pub const MAX_INPUT_SIZE: u64 = Generator::MAX_INPUT_SIZE;
pub const MIN_RECOMMENDED_INPUT_SIZE: u64 = Generator::MIN_RECOMMENDED_INPUT_SIZE;

pub fn add_slice(g: &mut Generator, s: &[u8]) { *g += s; }
pub fn add_byte(g: &mut Generator, b: u8) { *g += b; }
pub fn add_array<const N: usize>(g: &mut Generator, a: &[u8; N]) { *g += a; }

//@if misc
pub fn default_gen() -> Generator { <Generator as Default>::default() }
//@endif

pub fn clone_gen(g: &Generator) -> Generator { g.clone() }

// public accessors
pub fn raw_fields(h: &RawFuzzyHash) -> HashFields {
    HashFields { log: h.log_block_size(), bh1: h.block_hash_1_as_array().to_vec(), len1: h.block_hash_1_len(),
                 bh2: h.block_hash_2_as_array().to_vec(), len2: h.block_hash_2_len() }
}
pub fn long_fields(h: &LongRawFuzzyHash) -> HashFields {
    HashFields { log: h.log_block_size(), bh1: h.block_hash_1_as_array().to_vec(), len1: h.block_hash_1_len(),
                 bh2: h.block_hash_2_as_array().to_vec(), len2: h.block_hash_2_len() }
}
