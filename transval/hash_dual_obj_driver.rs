// transval/hash_dual_obj_driver.rs -- translation-validation driver for unit `hash_dual_obj` (which @includes
// hash_dual_algos.vc: the RLE algorithms are crate-private on the real side and are exercised THROUGH the dual object
// methods below; the unit `hash_dual_algos` holds the same rule-rewritten bodies and has no driver of its own).
//
// Shared verbatim by both sides; names come from `mod tv` (hash_dual_obj_shim_extracted.rs / hash_dual_obj_shim_real.rs).
//
// Covered, for DualFuzzyHash (64,32,16,8) and LongDualFuzzyHash (64,64,16,16):
//   new, Default::default, from_raw_form, init_from_raw_form on a REUSED (run-rich) object, From<raw>, from_normalized,
//   From<norm>, new_from_internals_near_raw (valid and invalid arguments -> the crate's assert!s -> PANIC),
//   log_block_size, block_size, as_normalized, AsRef::as_ref, to_normalized, to_raw_form, into_mut_raw_form (REUSED raw
//   destination), normalize_in_place, is_normalized, is_valid, PartialEq::eq, Hash::hash (the recording hasher shows the
//   two private RLE blocks byte by byte, so the compressed representation itself is compared).
//   Underneath: hash_dual::algorithms::{compress_block_hash_with_rle (R3), expand_block_hash_using_rle (R3 + typed
//   closure), update_rle_block, is_valid_rle_block_for_block_hash (R3, R7)}, rle_encoding::{encode, decode}, and the
//   FuzzyHashData methods they use.
// Contents are run-rich on purpose: runs of 1..40 equal symbols, many runs longer than 3 (each needs RLE entries), runs
// longer than 7 (several entries per run), block hashes at full capacity.
// Skipped:
//   new_from_internals / new_from_internals_internal (block SIZE argument: block_size::is_valid and
//   log_from_valid_internal are external_body = unimplemented!() in the unit) -- EXCEPT in the configuration
//   `hash_dual_obj_bs` (flag `stubs`; reference bodies substituted by tools/transval.py, not under test); Ord, Debug, Display, to_*_string,
//   from_bytes, FromStr (other units: hash_dual_compare / hash_dual_text / hash_dual); dual objects with INVALID content
//   cannot be built through the public API, so is_valid() == true on every object observed.
//
// One transcript line per case.

use tv::{TvDual, TvOps};

pub struct RecHasher(pub Vec<u8>);
impl core::hash::Hasher for RecHasher {
    fn finish(&self) -> u64 {
        self.0.len() as u64
    }
    fn write(&mut self, bytes: &[u8]) {
        self.0.push(0xfe);
        self.0.extend_from_slice(bytes);
    }
    fn write_u8(&mut self, i: u8) {
        self.0.push(0xfd);
        self.0.push(i);
    }
}

/// run-rich symbol string of length <= cap
fn gen_runs(rng: &mut Rng, cap: usize) -> Vec<u8> {
    let n = match rng.below(8) {
        0 => 0,
        1 | 2 => cap,
        3 => rng.range(0, 6) as usize,
        _ => rng.range(0, cap as u64) as usize,
    };
    let style = rng.below(6);
    let alpha: u64 = if rng.chance(1, 2) { 4 } else { 64 };
    let mut v: Vec<u8> = Vec::with_capacity(n);
    while v.len() < n {
        let mut c = rng.below(alpha) as u8;
        if v.last() == Some(&c) {
            c = (c + 1) % (alpha as u8);
        }
        let r = match style {
            0 => rng.range(1, 3),   // already normalized
            1 => rng.range(1, 40),  // very long runs
            2 => rng.range(3, 9),   // around the entry capacity (a run of 4..7 = one entry, 8.. = more)
            3 => 4,                 // as many RLE entries as possible
            _ => [1, 1, 2, 3, 4, 5, 7, 8, 11, 12, 20][rng.below(11) as usize],
        } as usize;
        for _ in 0..r {
            if v.len() < n {
                v.push(c);
            }
        }
    }
    v
}

fn b(v: bool) -> char {
    if v { '1' } else { '0' }
}

fn f<T: TvOps>(x: &T) -> String {
    fields(&x.tv_fields())
}

macro_rules! per_dual {
    ($fname:ident, $dual:ty, $raw:ty, $norm:ty, $name:expr, $s1:expr, $s2:expr) => {
        fn $fname(rng: &mut Rng, reused: &mut $dual, rawdest: &mut $raw, line: &mut String) {
            let log: u8 = if rng.chance(1, 30) { rng.range(31, 255) as u8 } else { rng.range(0, 30) as u8 };
            let mut s1 = gen_runs(rng, $s1);
            let mut s2 = gen_runs(rng, $s2);
            let mut note = "";
            match rng.below(40) {
                0 if !s1.is_empty() => {
                    let i = rng.below(s1.len() as u64) as usize;
                    s1[i] = 64 + rng.byte() % 192;
                    note = "badsym1";
                }
                1 if !s2.is_empty() => {
                    let i = rng.below(s2.len() as u64) as usize;
                    s2[i] = 64 + rng.byte() % 192;
                    note = "badsym2";
                }
                2 => {
                    s1.resize($s1 + 1 + rng.below(4) as usize, 5);
                    note = "long1";
                }
                3 => {
                    s2.resize($s2 + 1 + rng.below(4) as usize, 5);
                    note = "long2";
                }
                _ => {}
            }
            line.push_str(&format!(" {} log={} s1={} s2={}{}", $name, log, syms(&s1), syms(&s2), note));
            // the raw object (None if the raw constructor rejects the arguments)
            let raw: Option<$raw> = guard(|| <$raw>::new_from_internals_near_raw(log, &s1, &s2));
            //@if stubs
            let how = rng.below(8);
            //@else
            let how = rng.below(6);
            //@endif
            let d: Option<$dual> = match (how, &raw) {
                //@if stubs
                (6, _) | (7, _) => {
                    // the constructor that takes a block SIZE (valid: 3 * 2^k; otherwise the crate's assert! fires)
                    let bs: u32 = match rng.below(10) {
                        0 => rng.next() as u32,
                        1 => 0,
                        2 => (3u32 << rng.range(0, 30)).wrapping_add(1),
                        _ => 3u32 << rng.range(0, 30),
                    };
                    line.push_str(&format!(" new_from_internals(bs={})", bs));
                    guard(|| <$dual>::new_from_internals(bs, &s1, &s2))
                }
                //@endif
                (0, _) | (_, None) => {
                    line.push_str(" near_raw");
                    guard(|| <$dual>::new_from_internals_near_raw(log, &s1, &s2))
                }
                (1, Some(r)) => {
                    line.push_str(" from_raw_form");
                    guard(|| <$dual>::from_raw_form(r))
                }
                (2, Some(r)) | (3, Some(r)) => {
                    // re-initialise whatever (run-rich) dual the previous cases left behind
                    line.push_str(" init_from_raw_form(reused)");
                    let g = guard(|| reused.init_from_raw_form(r));
                    if g.is_none() {
                        *reused = <$dual>::new();
                    }
                    g.map(|_| reused.clone())
                }
                (4, Some(r)) => {
                    line.push_str(" From(raw)");
                    guard(|| <$dual as TvDual>::tv_from_raw(r.clone()))
                }
                (_, Some(r)) => {
                    // through the normalized object: loses the runs
                    let n: Option<$norm> = guard(|| <$norm>::from_raw_form(r));
                    match n {
                        Some(n) => {
                            if rng.chance(1, 2) {
                                line.push_str(" from_normalized");
                                guard(|| <$dual>::from_normalized(&n))
                            } else {
                                line.push_str(" From(norm)");
                                guard(|| <$dual as TvDual>::tv_from_norm(n.clone()))
                            }
                        }
                        None => None,
                    }
                }
            };
            let d = match d {
                Some(d) => d,
                None => {
                    line.push_str(" => PANIC");
                    return;
                }
            };
            observe_dual(&d, reused, rawdest, line);
            // drop the reconstruction data in place, observe again
            let mut c = d.clone();
            let g = guard(|| c.normalize_in_place());
            if g.is_none() {
                line.push_str(" normalize_in_place=PANIC");
            } else {
                line.push_str(" | normalize_in_place:");
                observe_dual(&c, &d, rawdest, line);
            }
            // default / new
            if rng.chance(1, 20) {
                let n = <$dual>::new();
                let e = <$dual as TvDual>::tv_default();
                line.push_str(&format!(" | new: eqdefault={}", show(|| n.tv_eq(&e), |v| b(*v).to_string())));
                observe_dual(&n, &e, rawdest, line);
            }
        }
    };
}

fn observe_dual<D: TvDual>(d: &D, other: &D, rawdest: &mut D::Raw, line: &mut String)
where
    D::Raw: TvOps,
    D::Norm: TvOps,
{
    line.push_str(&format!(" lbs={} bs={} norm={} valid={}",
        show(|| d.tv_log_block_size(), |v| v.to_string()),
        show(|| d.tv_block_size(), |v| v.to_string()),
        show(|| d.tv_is_normalized(), |v| b(*v).to_string()),
        show(|| d.tv_is_valid(), |v| b(*v).to_string())));
    line.push_str(&format!(" as_norm={}", show(|| d.tv_as_normalized().tv_fields(), fields)));
    line.push_str(&format!(" as_ref={}", show(|| d.tv_as_ref().tv_fields(), fields)));
    line.push_str(&format!(" to_norm={}", show(|| d.tv_to_normalized().tv_fields(), fields)));
    line.push_str(&format!(" to_raw={}", show(|| d.tv_to_raw_form().tv_fields(), fields)));
    let g = guard(|| d.tv_into_mut_raw_form(rawdest));
    line.push_str(&format!(" into_raw(reused)={}", if g.is_some() { fields(&rawdest.tv_fields()) } else { String::from("PANIC") }));
    line.push_str(&format!(" eq[{}{}]", show(|| d.tv_eq(d), |v| b(*v).to_string()), show(|| d.tv_eq(other), |v| b(*v).to_string())));
    let mut h = RecHasher(Vec::new());
    let g = guard(|| d.tv_hash(&mut h));
    line.push_str(&format!(" hash={}", if g.is_some() { hex(&h.0) } else { String::from("PANIC") }));
}

per_dual!(dual_short, tv::DualFuzzyHash, tv::RawFuzzyHash, tv::FuzzyHash, "Dual", 64, 32);
per_dual!(dual_long, tv::LongDualFuzzyHash, tv::LongRawFuzzyHash, tv::LongFuzzyHash, "LongDual", 64, 64);

pub fn tv_run(seed: u64, cases: u64, out: &mut Out) {
    out.line(&format!("# transval hash_dual_obj seed={} cases={}", seed, cases));
    let mut ds = tv::DualFuzzyHash::new();
    let mut dl = tv::LongDualFuzzyHash::new();
    let mut rs = tv::RawFuzzyHash::new();
    let mut rl = tv::LongRawFuzzyHash::new();
    for case in 0..cases {
        let mut rng = Rng::for_case(seed, case);
        let mut line = format!("case={}", case);
        if case % 2 == 0 {
            dual_short(&mut rng, &mut ds, &mut rs, &mut line);
        } else {
            dual_long(&mut rng, &mut dl, &mut rl, &mut line);
        }
        out.line(&line);
    }
}
