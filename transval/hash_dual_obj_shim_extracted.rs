// names of unit `hash_dual_obj` items as the driver sees them (extracted side)
pub use crate::internals::hash::FuzzyHashData;
pub use crate::internals::hash_dual::FuzzyHashDualData;
use crate::internals::hash_dual::ReconstructionBlockSize;
use crate::tv_driver::HashFields;

// the unit keeps the generic structs only; the public aliases of the crate:
pub type FuzzyHash = FuzzyHashData<64, 32, true>;
pub type RawFuzzyHash = FuzzyHashData<64, 32, false>;
pub type LongFuzzyHash = FuzzyHashData<64, 64, true>;
pub type LongRawFuzzyHash = FuzzyHashData<64, 64, false>;
pub type DualFuzzyHash = FuzzyHashDualData<64, 32, 16, 8>;
pub type LongDualFuzzyHash = FuzzyHashDualData<64, 64, 16, 16>;

// The sealed marker impls `ReconstructionBlockSize<{ FULL_SIZE }, { FULL_SIZE / 4 }>` / `<{ HALF_SIZE }, { HALF_SIZE / 4 }>`
// are left out of the unit (const arithmetic in impl headers is not accepted inside verus!; the unit states the admitted
// sizes as `requires dual_sizes_ok`).  To INSTANTIATE the dual types they are restated here, with the evaluated sizes:
impl crate::internals::hash_dual::private::SealedReconstructionBlockSize for ReconstructionBlockSize<64, 16> {}
impl crate::internals::hash_dual::private::SealedReconstructionBlockSize for ReconstructionBlockSize<32, 8> {}

macro_rules! tv_ops {
    ($ty:ty) => {
        impl TvOps for $ty {
            // fields are pub in the unit
            fn tv_fields(&self) -> HashFields {
                HashFields { log: self.log_blocksize, bh1: self.blockhash1.to_vec(), len1: self.len_blockhash1 as usize,
                             bh2: self.blockhash2.to_vec(), len2: self.len_blockhash2 as usize }
            }
        }
    };
}
tv_ops!(FuzzyHash);
tv_ops!(RawFuzzyHash);
tv_ops!(LongFuzzyHash);
tv_ops!(LongRawFuzzyHash);

pub trait TvOps: Sized {
    fn tv_fields(&self) -> HashFields;
}
pub trait TvDual: Sized + Clone {
    type Raw;
    type Norm;
    fn tv_log_block_size(&self) -> u8;
    fn tv_block_size(&self) -> u32;
    fn tv_is_normalized(&self) -> bool;
    fn tv_is_valid(&self) -> bool;
    fn tv_as_normalized(&self) -> &Self::Norm;
    fn tv_as_ref(&self) -> &Self::Norm;
    fn tv_to_normalized(&self) -> Self::Norm;
    fn tv_to_raw_form(&self) -> Self::Raw;
    fn tv_into_mut_raw_form(&self, dest: &mut Self::Raw);
    fn tv_eq(&self, other: &Self) -> bool;
    fn tv_hash<H: core::hash::Hasher>(&self, state: &mut H);
    fn tv_from_raw(v: Self::Raw) -> Self;
    fn tv_from_norm(v: Self::Norm) -> Self;
    fn tv_default() -> Self;
}
macro_rules! tv_dual {
    ($dual:ty, $raw:ty, $norm:ty) => {
        impl TvDual for $dual {
            type Raw = $raw;
            type Norm = $norm;
            fn tv_log_block_size(&self) -> u8 { self.log_block_size() }
            fn tv_block_size(&self) -> u32 { self.block_size() }
            fn tv_is_normalized(&self) -> bool { self.is_normalized() }
            fn tv_is_valid(&self) -> bool { self.is_valid() }
            fn tv_as_normalized(&self) -> &$norm { self.as_normalized() }
            fn tv_to_normalized(&self) -> $norm { self.to_normalized() }
            fn tv_to_raw_form(&self) -> $raw { self.to_raw_form() }
            fn tv_into_mut_raw_form(&self, dest: &mut $raw) { self.into_mut_raw_form(dest) }
            // AsRef / PartialEq / Hash / From / Default impls are emitted as_inherent as_ref_impl / eq_impl / hash_impl /
            // from_raw / from_norm / default_impl
            fn tv_as_ref(&self) -> &$norm { self.as_ref_impl() }
            fn tv_eq(&self, other: &Self) -> bool { self.eq_impl(other) }
            fn tv_hash<H: core::hash::Hasher>(&self, state: &mut H) { self.hash_impl(state) }
            fn tv_from_raw(v: $raw) -> Self { <$dual>::from_raw(v) }
            fn tv_from_norm(v: $norm) -> Self { <$dual>::from_norm(v) }
            fn tv_default() -> Self { <$dual>::default_impl() }
        }
    };
}
tv_dual!(DualFuzzyHash, RawFuzzyHash, FuzzyHash);
tv_dual!(LongDualFuzzyHash, LongRawFuzzyHash, LongFuzzyHash);
