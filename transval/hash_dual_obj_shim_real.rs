// names of the real crate's items as the driver sees them (real side)
pub use ssdeep::{DualFuzzyHash, FuzzyHash, LongDualFuzzyHash, LongFuzzyHash, LongRawFuzzyHash, RawFuzzyHash};
use crate::tv_driver::HashFields;

macro_rules! tv_ops {
    ($ty:ty) => {
        impl TvOps for $ty {
            // public accessors
            fn tv_fields(&self) -> HashFields {
                HashFields { log: self.log_block_size(), bh1: self.block_hash_1_as_array().to_vec(), len1: self.block_hash_1_len(),
                             bh2: self.block_hash_2_as_array().to_vec(), len2: self.block_hash_2_len() }
            }
        }
    };
}
tv_ops!(FuzzyHash);
tv_ops!(RawFuzzyHash);
tv_ops!(LongFuzzyHash);
tv_ops!(LongRawFuzzyHash);

pub trait TvOps: Sized {
    fn tv_fields(&self) -> HashFields;
}
pub trait TvDual: Sized + Clone {
    type Raw;
    type Norm;
    fn tv_log_block_size(&self) -> u8;
    fn tv_block_size(&self) -> u32;
    fn tv_is_normalized(&self) -> bool;
    fn tv_is_valid(&self) -> bool;
    fn tv_as_normalized(&self) -> &Self::Norm;
    fn tv_as_ref(&self) -> &Self::Norm;
    fn tv_to_normalized(&self) -> Self::Norm;
    fn tv_to_raw_form(&self) -> Self::Raw;
    fn tv_into_mut_raw_form(&self, dest: &mut Self::Raw);
    fn tv_eq(&self, other: &Self) -> bool;
    fn tv_hash<H: core::hash::Hasher>(&self, state: &mut H);
    fn tv_from_raw(v: Self::Raw) -> Self;
    fn tv_from_norm(v: Self::Norm) -> Self;
    fn tv_default() -> Self;
}
macro_rules! tv_dual {
    ($dual:ty, $raw:ty, $norm:ty) => {
        impl TvDual for $dual {
            type Raw = $raw;
            type Norm = $norm;
            fn tv_log_block_size(&self) -> u8 { self.log_block_size() }
            fn tv_block_size(&self) -> u32 { self.block_size() }
            fn tv_is_normalized(&self) -> bool { self.is_normalized() }
            fn tv_is_valid(&self) -> bool { self.is_valid() }
            fn tv_as_normalized(&self) -> &$norm { self.as_normalized() }
            fn tv_to_normalized(&self) -> $norm { self.to_normalized() }
            fn tv_to_raw_form(&self) -> $raw { self.to_raw_form() }
            fn tv_into_mut_raw_form(&self, dest: &mut $raw) { self.into_mut_raw_form(dest) }
            fn tv_as_ref(&self) -> &$norm { AsRef::<$norm>::as_ref(self) }
            fn tv_eq(&self, other: &Self) -> bool { PartialEq::eq(self, other) }
            fn tv_hash<H: core::hash::Hasher>(&self, state: &mut H) { core::hash::Hash::hash(self, state) }
            fn tv_from_raw(v: $raw) -> Self { <$dual as From<$raw>>::from(v) }
            fn tv_from_norm(v: $norm) -> Self { <$dual as From<$norm>>::from(v) }
            fn tv_default() -> Self { <$dual as Default>::default() }
        }
    };
}
tv_dual!(DualFuzzyHash, RawFuzzyHash, FuzzyHash);
tv_dual!(LongDualFuzzyHash, LongRawFuzzyHash, LongFuzzyHash);
