// transval/hashdata_driver.rs -- translation-validation driver for unit `hashdata` (which @includes algorithms.vc: the
// block hash algorithms are crate-private on the real side and are exercised THROUGH the object methods below; the unit
// `algorithms` holds the same rule-rewritten bodies and has no driver of its own).
//
// Shared verbatim by both sides; names come from `mod tv` (hashdata_shim_extracted.rs / hashdata_shim_real.rs).
//
// Covered, for the four instantiations FuzzyHash (64,32,norm), RawFuzzyHash (64,32,raw), LongFuzzyHash (64,64,norm),
// LongRawFuzzyHash (64,64,raw):
//   new, new_from_internals_raw, init_from_internals_raw (REUSED destination), new_from_internals_near_raw -- with valid
//   and invalid arguments (log block size >= 31, lengths beyond capacity, symbols >= 64, non-zero tail, runs > 3 for the
//   normalized types: the crate's assert!/debug_assert! -> PANIC on both sides);
//   log_block_size, block_size, block_hash_1/2, block_hash_1/2_len, len_in_str, MAX_LEN_IN_STR, store_into_bytes (buffers
//   shorter / equal / longer than needed, buffer content shown), is_valid, is_normalized, normalize_in_place, normalize,
//   clone_normalized, full_eq, PartialEq::eq, Hash::hash (recording hasher);
//   from_raw_form, to_raw_form, into_mut_raw_form (reused destination), from_normalized, to_long_form,
//   into_mut_long_form (reused destination), from_short_form, try_into_mut_short (reused destination), the From / TryFrom
//   conversions (norm<->raw, short->long, short norm -> long raw, long -> short).
//   Underneath: algorithms::{normalize_block_hash_in_place(_internal) (R2), verify_block_hash_internal/_input/_current
//   (R3, R7), insert_block_hash_into_bytes (R6)}, block_size::{is_log_valid, from_log_internal(_const)}.
// Skipped:
//   new_from_internals / new_from_internals_internal (take a block SIZE: reach block_size::is_valid and
//   log_from_valid_internal, which are external_body = unimplemented!() in the unit) -- EXCEPT in the configuration
//   `hashdata_bs` (flag `stubs`): there tools/transval.py substitutes reference bodies for these two functions in its copy
//   of the unit (they are not under test) and the driver also builds objects through new_from_internals;
//   objects with INVALID content (cannot be built through the real crate's public API in this feature set), so
//   is_valid() == true on every object observed; the false outcomes of the verifier functions are observed through
//   the constructors' assertions.
//
// One transcript line per case.

use tv::TvOps;

/// records what Hash::hash writes
pub struct RecHasher(pub Vec<u8>);
impl core::hash::Hasher for RecHasher {
    fn finish(&self) -> u64 {
        self.0.len() as u64
    }
    fn write(&mut self, bytes: &[u8]) {
        self.0.push(0xfe); // call boundary
        self.0.extend_from_slice(bytes);
    }
    fn write_u8(&mut self, i: u8) {
        self.0.push(0xfd);
        self.0.push(i);
    }
}

/// block hash content: (array content of capacity `cap`, claimed length, description)
fn gen_bh(rng: &mut Rng, cap: usize, want_norm: bool) -> (Vec<u8>, u8, &'static str) {
    let n = match rng.below(10) {
        0 => 0,
        1 => cap,
        2 => rng.range(0, 4) as usize,
        _ => rng.range(0, cap as u64) as usize,
    };
    let alpha: u64 = if rng.chance(1, 3) { 3 } else { 64 };
    let maxrun: u64 = if want_norm && !rng.chance(1, 12) { 3 } else { rng.range(1, 9) };
    let mut v: Vec<u8> = Vec::with_capacity(cap);
    while v.len() < n {
        let mut c = rng.below(alpha) as u8;
        if v.last() == Some(&c) {
            c = (c + 1) % (alpha as u8);
        }
        let r = rng.range(1, maxrun) as usize;
        for _ in 0..r {
            if v.len() < n {
                v.push(c);
            }
        }
    }
    let mut len = n as u8;
    let mut what = "ok";
    match rng.below(30) {
        0 if n > 0 => {
            let i = rng.below(n as u64) as usize;
            v[i] = 64 + rng.byte() % 192;
            what = "badsym";
        }
        1 => {
            v.resize(cap, 0);
            if n < cap {
                let i = rng.range(n as u64, cap as u64 - 1) as usize;
                v[i] = 1 + rng.byte() % 63;
                what = "dirtytail";
            }
        }
        2 => {
            len = (cap as u8).wrapping_add(rng.range(1, 100) as u8);
            what = "lenbig";
        }
        _ => {}
    }
    v.resize(cap, 0);
    (v, len, what)
}

fn b(v: bool) -> char {
    if v { '1' } else { '0' }
}

macro_rules! per_type {
    ($fname:ident, $ty:ty, $name:expr, $s1:expr, $s2:expr, $norm:expr) => {
        /// builds an object of this type (or PANICs), observes everything observable; returns the object
        fn $fname(rng: &mut Rng, reused: &mut $ty, line: &mut String) -> Option<$ty> {
            let log: u8 = if rng.chance(1, 25) { rng.range(31, 255) as u8 } else { rng.range(0, 30) as u8 };
            let wn1 = $norm || rng.chance(1, 2);
            let wn2 = $norm || rng.chance(1, 2);
            let (a1, l1, w1) = gen_bh(rng, $s1, wn1);
            let (a2, l2, w2) = gen_bh(rng, $s2, wn2);
            let mut arr1 = [0u8; $s1];
            arr1.copy_from_slice(&a1);
            let mut arr2 = [0u8; $s2];
            arr2.copy_from_slice(&a2);
            line.push_str(&format!(" {} log={} bh1={}/{}{} bh2={}/{}{}", $name, log,
                                   syms(&a1[..(l1 as usize).min($s1)]), l1, if w1 == "ok" { "" } else { w1 },
                                   syms(&a2[..(l2 as usize).min($s2)]), l2, if w2 == "ok" { "" } else { w2 }));
            //@if stubs
            let how = rng.below(6);
            //@else
            let how = rng.below(4);
            //@endif
            let obj: Option<$ty> = match how {
                //@if stubs
                4 | 5 => {
                    // the constructor that takes a block SIZE (valid: 3 * 2^k; otherwise the crate's assert! fires)
                    let bs: u32 = match rng.below(10) {
                        0 => rng.next() as u32,
                        1 => 0,
                        2 => (3u32 << rng.range(0, 30)).wrapping_add(1),
                        3 => 1u32 << rng.range(0, 31),
                        _ => 3u32 << rng.range(0, 30),
                    };
                    let e1 = (l1 as usize).min($s1);
                    let e2 = (l2 as usize).min($s2);
                    line.push_str(&format!(" new_from_internals(bs={})", bs));
                    guard(|| <$ty>::new_from_internals(bs, &a1[..e1], &a2[..e2]))
                }
                //@endif
                0 => {
                    line.push_str(" new_raw");
                    guard(|| <$ty>::new_from_internals_raw(log, &arr1, &arr2, l1, l2))
                }
                1 => {
                    // reused destination: whatever the previous cases left there
                    line.push_str(" init_raw(reused)");
                    let r = guard(|| reused.init_from_internals_raw(log, &arr1, &arr2, l1, l2));
                    if r.is_none() {
                        line.push_str(&format!("=PANIC dest:{}", fields(&reused.tv_fields())));
                        *reused = <$ty>::new();
                    }
                    r.map(|_| reused.clone())
                }
                2 => {
                    line.push_str(" init_raw(fresh)");
                    let mut o = <$ty>::new();
                    guard(|| o.init_from_internals_raw(log, &arr1, &arr2, l1, l2)).map(|_| o)
                }
                _ => {
                    // slices; sometimes longer than the capacity
                    let e1 = if rng.chance(1, 30) { $s1 + 1 + rng.below(5) as usize } else { (l1 as usize).min($s1) };
                    let e2 = if rng.chance(1, 30) { $s2 + 1 + rng.below(5) as usize } else { (l2 as usize).min($s2) };
                    let mut s1v = a1.clone();
                    s1v.resize(e1.max($s1), 1);
                    let mut s2v = a2.clone();
                    s2v.resize(e2.max($s2), 1);
                    line.push_str(&format!(" near_raw({},{})", e1, e2));
                    guard(|| <$ty>::new_from_internals_near_raw(log, &s1v[..e1], &s2v[..e2]))
                }
            };
            let o = match obj {
                Some(o) => o,
                None => {
                    line.push_str(" => PANIC");
                    return None;
                }
            };
            line.push_str(&format!(" => {}", fields(&o.tv_fields())));
            line.push_str(&format!(" lbs={} bs={} b1={} b2={} n1={} n2={} lis={} valid={} norm={}",
                show(|| o.log_block_size(), |v| v.to_string()),
                show(|| o.block_size(), |v| v.to_string()),
                show(|| o.block_hash_1().to_vec(), |v| syms(v)),
                show(|| o.block_hash_2().to_vec(), |v| syms(v)),
                show(|| o.block_hash_1_len(), |v| v.to_string()),
                show(|| o.block_hash_2_len(), |v| v.to_string()),
                show(|| o.len_in_str(), |v| v.to_string()),
                show(|| o.is_valid(), |v| b(*v).to_string()),
                show(|| o.is_normalized(), |v| b(*v).to_string())));
            // store_into_bytes: exact / short / long buffers, pre-filled
            let need = guard(|| o.len_in_str()).unwrap_or(0);
            let blen = match rng.below(5) {
                0 => need,
                1 => need.saturating_sub(1 + rng.below(3) as usize),
                2 => rng.below(1 + need as u64) as usize,
                3 => need + rng.range(1, 9) as usize,
                _ => <$ty>::MAX_LEN_IN_STR,
            };
            let mut buf = vec![0x2eu8; blen];
            let r = show(|| o.store_into_bytes(&mut buf), |r| match r {
                Ok(n) => format!("Ok({})", n),
                Err(e) => format!("Err({})", tv::op_err(e)),
            });
            line.push_str(&format!(" store[{}]={} buf={}", blen, r, String::from_utf8_lossy(&buf)));
            // normalisation family
            line.push_str(&format!(" cn={}", show(|| o.clone_normalized(), |n| fields(&n.tv_fields()))));
            line.push_str(&format!(" nz={}", show(|| o.normalize(), |n| fields(&n.tv_fields()))));
            let mut c = o.clone();
            let r = guard(|| c.normalize_in_place());
            line.push_str(&format!(" nip={}", if r.is_some() { fields(&c.tv_fields()) } else { String::from("PANIC") }));
            line.push_str(&format!(" nip.norm={} nip.valid={}", show(|| c.is_normalized(), |v| b(*v).to_string()),
                                   show(|| c.is_valid(), |v| b(*v).to_string())));
            // equality family: against itself, its normalisation, the reused object
            line.push_str(&format!(" eq[{}{}{}] feq[{}{}{}]",
                show(|| o.tv_eq(&o), |v| b(*v).to_string()), show(|| o.tv_eq(&c), |v| b(*v).to_string()),
                show(|| o.tv_eq(reused), |v| b(*v).to_string()),
                show(|| o.full_eq(&o), |v| b(*v).to_string()), show(|| o.full_eq(&c), |v| b(*v).to_string()),
                show(|| o.full_eq(reused), |v| b(*v).to_string())));
            let mut h = RecHasher(Vec::new());
            let r = guard(|| o.tv_hash(&mut h));
            line.push_str(&format!(" hash={}", if r.is_some() { hex(&h.0) } else { String::from("PANIC") }));
            Some(o)
        }
    };
}

per_type!(obj_fh, tv::FuzzyHash, "FuzzyHash", 64, 32, true);
per_type!(obj_raw, tv::RawFuzzyHash, "RawFuzzyHash", 64, 32, false);
per_type!(obj_lfh, tv::LongFuzzyHash, "LongFuzzyHash", 64, 64, true);
per_type!(obj_lraw, tv::LongRawFuzzyHash, "LongRawFuzzyHash", 64, 64, false);

fn f<T: TvOps>(x: &T) -> String {
    fields(&x.tv_fields())
}

/// reused destinations, kept across cases
pub struct Dests {
    fh: tv::FuzzyHash,
    raw: tv::RawFuzzyHash,
    lfh: tv::LongFuzzyHash,
    lraw: tv::LongRawFuzzyHash,
}

fn conv_short_raw(r: &tv::RawFuzzyHash, d: &mut Dests, line: &mut String) {
    // raw -> norm
    line.push_str(&format!(" from_raw_form={}", show(|| tv::FuzzyHash::from_raw_form(r), f)));
    line.push_str(&format!(" From(raw)={}", show(|| tv::raw_to_norm_s(r.clone()), f)));
    // short -> long
    line.push_str(&format!(" to_long={}", show(|| r.to_long_form(), f)));
    let g = guard(|| r.into_mut_long_form(&mut d.lraw));
    line.push_str(&format!(" into_long(reused)={}", if g.is_some() { f(&d.lraw) } else { String::from("PANIC") }));
    line.push_str(&format!(" from_short={}", show(|| tv::LongRawFuzzyHash::from_short_form(r), f)));
    line.push_str(&format!(" From(short)={}", show(|| tv::short_to_long_r(r.clone()), f)));
}

fn conv_short_norm(n: &tv::FuzzyHash, d: &mut Dests, line: &mut String) {
    line.push_str(&format!(" to_raw_form={}", show(|| n.to_raw_form(), f)));
    let g = guard(|| n.into_mut_raw_form(&mut d.raw));
    line.push_str(&format!(" into_raw(reused)={}", if g.is_some() { f(&d.raw) } else { String::from("PANIC") }));
    line.push_str(&format!(" from_normalized={}", show(|| tv::RawFuzzyHash::from_normalized(n), f)));
    line.push_str(&format!(" From(norm)={}", show(|| tv::norm_to_raw_s(n.clone()), f)));
    line.push_str(&format!(" to_long={}", show(|| n.to_long_form(), f)));
    let g = guard(|| n.into_mut_long_form(&mut d.lfh));
    line.push_str(&format!(" into_long(reused)={}", if g.is_some() { f(&d.lfh) } else { String::from("PANIC") }));
    line.push_str(&format!(" from_short={}", show(|| tv::LongFuzzyHash::from_short_form(n), f)));
    line.push_str(&format!(" From(short)={}", show(|| tv::short_to_long_n(n.clone()), f)));
    line.push_str(&format!(" From(shortnorm->longraw)={}", show(|| tv::short_norm_to_long_raw(n.clone()), f)));
}

fn conv_long_raw(r: &tv::LongRawFuzzyHash, d: &mut Dests, line: &mut String) {
    line.push_str(&format!(" from_raw_form={}", show(|| tv::LongFuzzyHash::from_raw_form(r), f)));
    line.push_str(&format!(" From(raw)={}", show(|| tv::raw_to_norm_l(r.clone()), f)));
    let g = guard(|| r.try_into_mut_short(&mut d.raw));
    line.push_str(&format!(" try_short(reused)={} dest={}", match &g {
        Some(Ok(())) => String::from("Ok"),
        Some(Err(e)) => format!("Err({})", tv::op_err(e)),
        None => String::from("PANIC"),
    }, f(&d.raw)));
    line.push_str(&format!(" TryFrom(long)={}", show(|| tv::long_to_short_r(r.clone()), |x| match x {
        Ok(s) => format!("Ok({})", f(s)),
        Err(e) => format!("Err({})", tv::op_err(e)),
    })));
}

fn conv_long_norm(n: &tv::LongFuzzyHash, d: &mut Dests, line: &mut String) {
    line.push_str(&format!(" to_raw_form={}", show(|| n.to_raw_form(), f)));
    let g = guard(|| n.into_mut_raw_form(&mut d.lraw));
    line.push_str(&format!(" into_raw(reused)={}", if g.is_some() { f(&d.lraw) } else { String::from("PANIC") }));
    line.push_str(&format!(" from_normalized={}", show(|| tv::LongRawFuzzyHash::from_normalized(n), f)));
    line.push_str(&format!(" From(norm)={}", show(|| tv::norm_to_raw_l(n.clone()), f)));
    let g = guard(|| n.try_into_mut_short(&mut d.fh));
    line.push_str(&format!(" try_short(reused)={} dest={}", match &g {
        Some(Ok(())) => String::from("Ok"),
        Some(Err(e)) => format!("Err({})", tv::op_err(e)),
        None => String::from("PANIC"),
    }, f(&d.fh)));
    line.push_str(&format!(" TryFrom(long)={}", show(|| tv::long_to_short_n(n.clone()), |x| match x {
        Ok(s) => format!("Ok({})", f(s)),
        Err(e) => format!("Err({})", tv::op_err(e)),
    })));
}

pub fn tv_run(seed: u64, cases: u64, out: &mut Out) {
    out.line(&format!("# transval hashdata seed={} cases={} MAX_LEN_IN_STR={}/{}/{}/{}", seed, cases,
                      tv::FuzzyHash::MAX_LEN_IN_STR, tv::RawFuzzyHash::MAX_LEN_IN_STR,
                      tv::LongFuzzyHash::MAX_LEN_IN_STR, tv::LongRawFuzzyHash::MAX_LEN_IN_STR));
    let mut d = Dests { fh: tv::FuzzyHash::new(), raw: tv::RawFuzzyHash::new(), lfh: tv::LongFuzzyHash::new(), lraw: tv::LongRawFuzzyHash::new() };
    let mut r_fh = tv::FuzzyHash::new();
    let mut r_raw = tv::RawFuzzyHash::new();
    let mut r_lfh = tv::LongFuzzyHash::new();
    let mut r_lraw = tv::LongRawFuzzyHash::new();
    out.line(&format!("fresh {} {} {} {}", f(&r_fh), f(&r_raw), f(&r_lfh), f(&r_lraw)));
    for case in 0..cases {
        let mut rng = Rng::for_case(seed, case);
        let mut line = format!("case={}", case);
        match case % 4 {
            0 => {
                if let Some(o) = obj_fh(&mut rng, &mut r_fh, &mut line) {
                    conv_short_norm(&o, &mut d, &mut line);
                }
            }
            1 => {
                if let Some(o) = obj_raw(&mut rng, &mut r_raw, &mut line) {
                    conv_short_raw(&o, &mut d, &mut line);
                }
            }
            2 => {
                if let Some(o) = obj_lfh(&mut rng, &mut r_lfh, &mut line) {
                    conv_long_norm(&o, &mut d, &mut line);
                }
            }
            _ => {
                if let Some(o) = obj_lraw(&mut rng, &mut r_lraw, &mut line) {
                    conv_long_raw(&o, &mut d, &mut line);
                }
            }
        }
        out.line(&line);
    }
}
