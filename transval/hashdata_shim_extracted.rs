// names of unit `hashdata` items as the driver sees them (extracted side)
pub use crate::internals::hash::{FuzzyHashData, FuzzyHashOperationError};
use crate::tv_driver::HashFields;

// the unit keeps the generic struct only; the four public aliases of the crate:
pub type FuzzyHash = FuzzyHashData<64, 32, true>;
pub type RawFuzzyHash = FuzzyHashData<64, 32, false>;
pub type LongFuzzyHash = FuzzyHashData<64, 64, true>;
pub type LongRawFuzzyHash = FuzzyHashData<64, 64, false>;

// (the unit's enum has no Debug derive)
pub fn op_err(e: &FuzzyHashOperationError) -> &'static str {
    match e {
        FuzzyHashOperationError::BlockHashOverflow => "BlockHashOverflow",
        FuzzyHashOperationError::StringizationOverflow => "StringizationOverflow",
    }
}

pub trait TvOps: Sized {
    fn tv_fields(&self) -> HashFields;
    fn tv_eq(&self, other: &Self) -> bool;
    fn tv_hash<H: core::hash::Hasher>(&self, state: &mut H);
}
macro_rules! tv_ops {
    ($ty:ty) => {
        impl TvOps for $ty {
            // fields are pub in the unit
            fn tv_fields(&self) -> HashFields {
                HashFields { log: self.log_blocksize, bh1: self.blockhash1.to_vec(), len1: self.len_blockhash1 as usize,
                             bh2: self.blockhash2.to_vec(), len2: self.len_blockhash2 as usize }
            }
            // `impl PartialEq` / `impl Hash` are emitted as_inherent eq_impl / hash_impl
            fn tv_eq(&self, other: &Self) -> bool { self.eq_impl(other) }
            fn tv_hash<H: core::hash::Hasher>(&self, state: &mut H) { self.hash_impl(state) }
        }
    };
}
tv_ops!(FuzzyHash);
tv_ops!(RawFuzzyHash);
tv_ops!(LongFuzzyHash);
tv_ops!(LongRawFuzzyHash);

// From / TryFrom impls are emitted as_inherent from_norm_to_raw / from_raw_to_norm / from_short_to_long /
// from_short_norm_to_long_raw / try_from_long_to_short
pub fn norm_to_raw_s(v: FuzzyHash) -> RawFuzzyHash { RawFuzzyHash::from_norm_to_raw(v) }
pub fn norm_to_raw_l(v: LongFuzzyHash) -> LongRawFuzzyHash { LongRawFuzzyHash::from_norm_to_raw(v) }
pub fn raw_to_norm_s(v: RawFuzzyHash) -> FuzzyHash { FuzzyHash::from_raw_to_norm(v) }
pub fn raw_to_norm_l(v: LongRawFuzzyHash) -> LongFuzzyHash { LongFuzzyHash::from_raw_to_norm(v) }
pub fn short_to_long_n(v: FuzzyHash) -> LongFuzzyHash { LongFuzzyHash::from_short_to_long(v) }
pub fn short_to_long_r(v: RawFuzzyHash) -> LongRawFuzzyHash { LongRawFuzzyHash::from_short_to_long(v) }
pub fn short_norm_to_long_raw(v: FuzzyHash) -> LongRawFuzzyHash { LongRawFuzzyHash::from_short_norm_to_long_raw(v) }
pub fn long_to_short_n(v: LongFuzzyHash) -> Result<FuzzyHash, FuzzyHashOperationError> { FuzzyHash::try_from_long_to_short(v) }
pub fn long_to_short_r(v: LongRawFuzzyHash) -> Result<RawFuzzyHash, FuzzyHashOperationError> { RawFuzzyHash::try_from_long_to_short(v) }
