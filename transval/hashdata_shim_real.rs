// names of the real crate's items as the driver sees them (real side)
pub use ssdeep::{FuzzyHash, FuzzyHashData, FuzzyHashOperationError, LongFuzzyHash, LongRawFuzzyHash, RawFuzzyHash};
use crate::tv_driver::HashFields;

pub fn op_err(e: &FuzzyHashOperationError) -> &'static str {
    match e {
        FuzzyHashOperationError::BlockHashOverflow => "BlockHashOverflow",
        FuzzyHashOperationError::StringizationOverflow => "StringizationOverflow",
        _ => "?", // (the real enum is #[non_exhaustive])
    }
}

pub trait TvOps: Sized {
    fn tv_fields(&self) -> HashFields;
    fn tv_eq(&self, other: &Self) -> bool;
    fn tv_hash<H: core::hash::Hasher>(&self, state: &mut H);
}
macro_rules! tv_ops {
    ($ty:ty) => {
        impl TvOps for $ty {
            // public accessors
            fn tv_fields(&self) -> HashFields {
                HashFields { log: self.log_block_size(), bh1: self.block_hash_1_as_array().to_vec(), len1: self.block_hash_1_len(),
                             bh2: self.block_hash_2_as_array().to_vec(), len2: self.block_hash_2_len() }
            }
            fn tv_eq(&self, other: &Self) -> bool { PartialEq::eq(self, other) }
            fn tv_hash<H: core::hash::Hasher>(&self, state: &mut H) { core::hash::Hash::hash(self, state) }
        }
    };
}
tv_ops!(FuzzyHash);
tv_ops!(RawFuzzyHash);
tv_ops!(LongFuzzyHash);
tv_ops!(LongRawFuzzyHash);

pub fn norm_to_raw_s(v: FuzzyHash) -> RawFuzzyHash { RawFuzzyHash::from(v) }
pub fn norm_to_raw_l(v: LongFuzzyHash) -> LongRawFuzzyHash { LongRawFuzzyHash::from(v) }
pub fn raw_to_norm_s(v: RawFuzzyHash) -> FuzzyHash { FuzzyHash::from(v) }
pub fn raw_to_norm_l(v: LongRawFuzzyHash) -> LongFuzzyHash { LongFuzzyHash::from(v) }
pub fn short_to_long_n(v: FuzzyHash) -> LongFuzzyHash { LongFuzzyHash::from(v) }
pub fn short_to_long_r(v: RawFuzzyHash) -> LongRawFuzzyHash { LongRawFuzzyHash::from(v) }
pub fn short_norm_to_long_raw(v: FuzzyHash) -> LongRawFuzzyHash { LongRawFuzzyHash::from(v) }
pub fn long_to_short_n(v: LongFuzzyHash) -> Result<FuzzyHash, FuzzyHashOperationError> { FuzzyHash::try_from(v) }
pub fn long_to_short_r(v: LongRawFuzzyHash) -> Result<RawFuzzyHash, FuzzyHashOperationError> { RawFuzzyHash::try_from(v) }
