// transval/hashes_driver.rs -- translation-validation driver for units `hashes`, `misc_gen` (flag `iter`) and the
// `opt-reduce-fnv-table` variants `hashes_reduce`, `misc_reduce` (flags `norolling noadd`: those units hold only
// PartialFNVHash::{new, update_by_byte, update, value} (+ update_by_iter, default in misc_reduce)).
//
// Shared verbatim by the extracted side (Verus-compiled unit file) and the real side (cargo bin linked to the crate).
// Names come from `mod tv` (hashes_shim_extracted.rs / hashes_shim_real.rs).
//
// Covered (both RollingHash and PartialFNVHash):
//   new, update_by_byte, update, value, AddAssign<&[u8]>, AddAssign<&[u8; N]> (N in {0,1,3,7,8,16}), AddAssign<u8>,
//   the `&mut Self` returns (chained calls), Clone/Copy of a used object, mixed forms on a reused object;
//   with flag `iter` (unit misc_gen): update_by_iter (slice iterator, a `map`/`chain` adapter, an inexact-size
//   iterator) and Default::default.
// Not covered here:
//   RollingHash::WINDOW_SIZE etc. (constants, compared by the compiler); nothing is skipped for reachability:
//   no function of these units is external_body (FNV_TABLE is an external_body *const* whose initialiser is kept
//   and evaluated by rustc on the extracted side too).
//
// One transcript line per case: `case=<k> <type> ops=<n> : <op>=<value after the op> ...`.

pub trait Hs: Sized + Clone {
    const NAME: &'static str;
    fn new_() -> Self;
    fn val(&self) -> u64;
    fn by_byte(&mut self, b: u8);
    fn by_slice(&mut self, s: &[u8]);
    fn add_slice(&mut self, s: &[u8]);
    fn add_byte(&mut self, b: u8);
    fn add_array(&mut self, s: &[u8]);
    fn chain3(&mut self, a: u8, s: &[u8], c: u8);
    //@if iter
    fn default_() -> Self;
    fn by_iter_slice(&mut self, s: &[u8]);
    fn by_iter_adapted(&mut self, s: &[u8]);
    fn by_iter_inexact(&mut self, s: &[u8]);
    //@endif
}

/// an iterator whose size_hint says nothing (and which is not fused by construction)
pub struct Inexact<'a>(pub &'a [u8], pub usize);
impl<'a> Iterator for Inexact<'a> {
    type Item = u8;
    fn next(&mut self) -> Option<u8> {
        if self.1 < self.0.len() {
            self.1 += 1;
            Some(self.0[self.1 - 1])
        } else {
            None
        }
    }
}

macro_rules! impl_hs {
    ($ty:ty, $name:expr, $pfx:ident) => {
        impl Hs for $ty {
            const NAME: &'static str = $name;
            fn new_() -> Self { <$ty>::new() }
            fn val(&self) -> u64 { self.value() as u64 }
            fn by_byte(&mut self, b: u8) { self.update_by_byte(b); }
            fn by_slice(&mut self, s: &[u8]) { self.update(s); }
            //@if noadd
            // (unit without the AddAssign impls: the three `+=` forms fall back to update / update_by_byte on BOTH sides)
            fn add_slice(&mut self, s: &[u8]) { self.update(s); }
            fn add_byte(&mut self, b: u8) { self.update_by_byte(b); }
            fn add_array(&mut self, s: &[u8]) { self.update(s); }
            //@else
            fn add_slice(&mut self, s: &[u8]) { tv::$pfx::add_slice(self, s) }
            fn add_byte(&mut self, b: u8) { tv::$pfx::add_byte(self, b) }
            fn add_array(&mut self, s: &[u8]) {
                match s.len() {
                    0 => { let a: [u8; 0] = []; tv::$pfx::add_array(self, &a) }
                    1 => { let mut a = [0u8; 1]; a.copy_from_slice(s); tv::$pfx::add_array(self, &a) }
                    3 => { let mut a = [0u8; 3]; a.copy_from_slice(s); tv::$pfx::add_array(self, &a) }
                    7 => { let mut a = [0u8; 7]; a.copy_from_slice(s); tv::$pfx::add_array(self, &a) }
                    8 => { let mut a = [0u8; 8]; a.copy_from_slice(s); tv::$pfx::add_array(self, &a) }
                    16 => { let mut a = [0u8; 16]; a.copy_from_slice(s); tv::$pfx::add_array(self, &a) }
                    _ => unreachable!(),
                }
            }
            //@endif
            fn chain3(&mut self, a: u8, s: &[u8], c: u8) {
                self.update_by_byte(a).update(s).update_by_byte(c);
            }
            //@if iter
            fn default_() -> Self { tv::$pfx::default_() }
            fn by_iter_slice(&mut self, s: &[u8]) { self.update_by_iter(s.iter().copied()); }
            fn by_iter_adapted(&mut self, s: &[u8]) {
                let h = s.len() / 2;
                self.update_by_iter(s[..h].iter().map(|x| *x).chain(s[h..].iter().copied()));
            }
            fn by_iter_inexact(&mut self, s: &[u8]) { self.update_by_iter(Inexact(s, 0)); }
            //@endif
        }
    };
}

//@if !norolling
impl_hs!(tv::RollingHash, "rolling", rh);
//@endif
impl_hs!(tv::PartialFNVHash, "fnv", fnv);

fn gen_data(rng: &mut Rng) -> Vec<u8> {
    let n = match rng.below(10) {
        0 => 0,
        1 => 1,
        2 => 6 + rng.below(3) as usize, // around the window size
        3 => rng.range(50, 300) as usize,
        _ => rng.range(0, 24) as usize,
    };
    match rng.below(6) {
        0 => vec![0u8; n],
        1 => vec![0xffu8; n],
        2 => {
            let b = rng.byte();
            vec![b; n]
        }
        3 => (0..n).map(|_| rng.byte() & 0x3f).collect(),
        _ => rng.bytes(n),
    }
}

fn one_case<T: Hs>(seed: u64, case: u64, out: &mut Out) {
    let mut rng = Rng::for_case(seed, case);
    //@if iter
    let mut h = if rng.chance(1, 3) { T::default_() } else { T::new_() };
    //@else
    let mut h = T::new_();
    //@endif
    let nops = rng.range(1, 14);
    let mut line = format!("case={} {} ops={} : init={:x}", case, T::NAME, nops, h.val());
    let mut saved: Option<T> = None;
    for _ in 0..nops {
        //@if iter
        let nforms = 12;
        //@else
        let nforms = 9;
        //@endif
        let form = rng.below(nforms);
        let data = gen_data(&mut rng);
        let label: String;
        let r = {
            let h = &mut h;
            let saved = &mut saved;
            match form {
                0 => {
                    let b = rng.byte();
                    label = format!("b{:02x}", b);
                    guard(|| h.by_byte(b))
                }
                1 => {
                    label = format!("s{}", hex(&data));
                    guard(|| h.by_slice(&data))
                }
                2 => {
                    label = format!("+s{}", hex(&data));
                    guard(|| h.add_slice(&data))
                }
                3 => {
                    let b = rng.byte();
                    label = format!("+b{:02x}", b);
                    guard(|| h.add_byte(b))
                }
                4 => {
                    const NS: [usize; 6] = [0, 1, 3, 7, 8, 16];
                    let n = NS[rng.below(6) as usize];
                    let a = rng.bytes(n);
                    label = format!("+a{}", hex(&a));
                    guard(|| h.add_array(&a))
                }
                5 => {
                    let (a, c) = (rng.byte(), rng.byte());
                    label = format!("c{:02x}.{}.{:02x}", a, hex(&data), c);
                    guard(|| h.chain3(a, &data, c))
                }
                6 => {
                    // fork: remember a copy of the used object
                    label = String::from("save");
                    *saved = Some(h.clone());
                    Some(())
                }
                7 => {
                    // continue from the remembered copy (if any)
                    label = String::from("restore");
                    if let Some(s) = saved.as_ref() {
                        *h = s.clone();
                    }
                    Some(())
                }
                8 => {
                    label = String::from("new");
                    *h = T::new_();
                    Some(())
                }
                //@if iter
                9 => {
                    label = format!("i{}", hex(&data));
                    guard(|| h.by_iter_slice(&data))
                }
                10 => {
                    label = format!("ia{}", hex(&data));
                    guard(|| h.by_iter_adapted(&data))
                }
                11 => {
                    label = format!("ix{}", hex(&data));
                    guard(|| h.by_iter_inexact(&data))
                }
                //@endif
                _ => unreachable!(),
            }
        };
        line.push(' ');
        line.push_str(&label);
        line.push('=');
        match r {
            Some(()) => {
                let v = show(|| h.val(), |v| format!("{:x}", v));
                line.push_str(&v);
            }
            None => {
                line.push_str("PANIC");
                h = T::new_();
            }
        }
    }
    out.line(&line);
}

pub fn tv_run(seed: u64, cases: u64, out: &mut Out) {
    out.line(&format!("# transval hashes seed={} cases={}", seed, cases));
    for case in 0..cases {
        //@if !norolling
        if case % 2 == 0 {
            one_case::<tv::RollingHash>(seed, case, out);
            continue;
        }
        //@endif
        one_case::<tv::PartialFNVHash>(seed, case, out);
    }
}
