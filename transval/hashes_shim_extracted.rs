// names of unit `hashes` / `misc_gen` items as the driver sees them (extracted side)
pub use crate::internals::generate::hashes::partial_fnv::PartialFNVHash;
//@if !norolling
pub use crate::internals::generate::hashes::rolling_hash::RollingHash;
//@endif

// AddAssign impls are emitted `as_inherent add_assign_slice / add_assign_array / add_assign_byte`
//@if !norolling
pub mod rh {
    use super::RollingHash;
    pub fn add_slice(h: &mut RollingHash, s: &[u8]) { h.add_assign_slice(s) }
    pub fn add_byte(h: &mut RollingHash, b: u8) { h.add_assign_byte(b) }
    pub fn add_array<const N: usize>(h: &mut RollingHash, a: &[u8; N]) { h.add_assign_array(a) }
    //@if iter
    pub fn default_() -> RollingHash { RollingHash::default_() }
    //@endif
}
//@endif
pub mod fnv {
    use super::PartialFNVHash;
    //@if !noadd
    pub fn add_slice(h: &mut PartialFNVHash, s: &[u8]) { h.add_assign_slice(s) }
    pub fn add_byte(h: &mut PartialFNVHash, b: u8) { h.add_assign_byte(b) }
    pub fn add_array<const N: usize>(h: &mut PartialFNVHash, a: &[u8; N]) { h.add_assign_array(a) }
    //@endif
    //@if iter
    pub fn default_() -> PartialFNVHash { PartialFNVHash::default_() }
    //@endif
}
