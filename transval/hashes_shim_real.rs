// names of the real crate's items as the driver sees them (real side)
pub use ssdeep::internal_hashes::PartialFNVHash;
//@if !norolling
pub use ssdeep::internal_hashes::RollingHash;
//@endif

//@if !norolling
pub mod rh {
    use super::RollingHash;
    pub fn add_slice(h: &mut RollingHash, s: &[u8]) { *h += s; }
    pub fn add_byte(h: &mut RollingHash, b: u8) { *h += b; }
    pub fn add_array<const N: usize>(h: &mut RollingHash, a: &[u8; N]) { *h += a; }
    //@if iter
    pub fn default_() -> RollingHash { <RollingHash as Default>::default() }
    //@endif
}
//@endif
pub mod fnv {
    use super::PartialFNVHash;
    //@if !noadd
    pub fn add_slice(h: &mut PartialFNVHash, s: &[u8]) { *h += s; }
    pub fn add_byte(h: &mut PartialFNVHash, b: u8) { *h += b; }
    pub fn add_array<const N: usize>(h: &mut PartialFNVHash, a: &[u8; N]) { *h += a; }
    //@endif
    //@if iter
    pub fn default_() -> PartialFNVHash { <PartialFNVHash as Default>::default() }
    //@endif
}
