// transval/misc_driver.rs -- translation-validation driver for unit `misc` (which @includes compare_easy.vc, hence parser.vc and
// compare.vc).
//
// Shared verbatim by both sides; names come from `mod tv` (misc_shim_extracted.rs / misc_shim_real.rs).
//
// Covered:
//   block_size::{from_log, is_near, cmp, log_from_valid} for arguments inside and outside their domains,
//   BlockSizeRelation::is_near, FuzzyHashCompareTarget::{raw_score_by_edit_distance, score_cap_on_block_hash_comparison}
//   (the public checked wrappers: assert!s -> PANIC out of domain), FuzzyHashData::{compare_block_sizes,
//   is_block_sizes_near, is_block_sizes_near_eq / _lt / _gt, cmp_by_block_size, AsRef::as_ref, Default::default,
//   block_hash_1_as_array, block_hash_2_as_array} (rule R11), ParseErrorInfo::{kind, origin, offset} of ParseError and of
//   ParseErrorEither, ParseErrorEither::side, and the easy function compare(&str, &str) on pairs of generated texts
//   (valid / invalid on either side; related block hashes so that scores are not all 0).
// STUBBED (not under test; see STUBS in tools/transval.py): block_size::is_valid, block_size::log_from_valid_internal --
//   so `log_from_valid` compares the wrapper's assert! and plumbing only, and the parser inside compare() can run.
//
// One transcript line per case.

fn b(v: bool) -> char {
    if v { '1' } else { '0' }
}

fn scalar_case(rng: &mut Rng, line: &mut String) {
    line.push_str(" scalars");
    for _ in 0..4 {
        let l: u8 = if rng.chance(1, 6) { rng.range(31, 255) as u8 } else { rng.range(0, 30) as u8 };
        let r: u8 = match rng.below(5) {
            0 => l,
            1 => l.wrapping_add(1),
            2 => l.wrapping_sub(1),
            _ => if rng.chance(1, 6) { rng.range(31, 255) as u8 } else { rng.range(0, 30) as u8 },
        };
        line.push_str(&format!(" ({},{}): from_log={} near={} cmp={} rel.near={}", l, r,
            show(|| tv::from_log(l), |v| format!("{:?}", v)),
            show(|| tv::is_near(l, r), |v| b(*v).to_string()),
            show(|| tv::cmp_logs(l, r), |v| format!("{:?}", v)),
            show(|| tv::rel_is_near(l, r), |v| b(*v).to_string())));
        let bs: u32 = match rng.below(6) {
            0 => rng.next() as u32,
            1 => 0,
            2 => (3u32 << rng.range(0, 30)).wrapping_add(rng.range(1, 2) as u32),
            _ => 3u32 << rng.range(0, 30),
        };
        line.push_str(&format!(" lfv({})={}", bs, show(|| tv::log_from_valid(bs), |v| v.to_string())));
        let l1: u8 = if rng.chance(1, 8) { rng.byte() } else { rng.range(5, 66) as u8 };
        let l2: u8 = if rng.chance(1, 8) { rng.byte() } else { rng.range(5, 66) as u8 };
        let maxd = (l1 as u32 + l2 as u32).saturating_sub(14);
        let ed: u32 = match rng.below(6) {
            0 => maxd + rng.range(1, 3) as u32,
            1 => rng.next() as u32,
            _ => rng.range(0, maxd as u64) as u32,
        };
        line.push_str(&format!(" raw({},{},{})={}", l1, l2, ed,
            show(|| tv::raw_score_by_edit_distance(l1, l2, ed), |v| v.to_string())));
        let lg: u8 = if rng.chance(1, 8) { rng.byte() } else if rng.chance(1, 2) { rng.range(0, 5) as u8 } else { rng.range(0, 31) as u8 };
        line.push_str(&format!(" cap({},{},{})={}", lg, l1, l2,
            show(|| tv::score_cap_on_block_hash_comparison(lg, l1, l2), |v| v.to_string())));
    }
}

fn gen_norm(rng: &mut Rng, cap: usize) -> Vec<u8> {
    let n = rng.range(0, cap as u64) as usize;
    let mut v: Vec<u8> = Vec::with_capacity(n);
    while v.len() < n {
        let mut c = rng.below(64) as u8;
        if v.last() == Some(&c) {
            c = (c + 1) % 64;
        }
        for _ in 0..rng.range(1, 3) {
            if v.len() < n {
                v.push(c);
            }
        }
    }
    v
}

fn object_case(rng: &mut Rng, line: &mut String) {
    let l1 = rng.range(0, 30) as u8;
    let l2 = match rng.below(5) {
        0 => l1,
        1 => (l1 + 1).min(30),
        2 => l1.saturating_sub(1),
        _ => rng.range(0, 30) as u8,
    };
    let (a1, a2, b1, b2) = (gen_norm(rng, 64), gen_norm(rng, 32), gen_norm(rng, 64), gen_norm(rng, 32));
    line.push_str(&format!(" objects A={}:{}:{} B={}:{}:{}", l1, syms(&a1), syms(&a2), l2, syms(&b1), syms(&b2)));
    let ha = match guard(|| tv::FuzzyHash::new_from_internals_near_raw(l1, &a1, &a2)) {
        Some(h) => h,
        None => {
            line.push_str(" A=>PANIC");
            return;
        }
    };
    let hb = match guard(|| tv::FuzzyHash::new_from_internals_near_raw(l2, &b1, &b2)) {
        Some(h) => h,
        None => {
            line.push_str(" B=>PANIC");
            return;
        }
    };
    line.push_str(&format!(" rel={} near={} eq={} lt={} gt={} ord={}",
        show(|| tv::FuzzyHash::compare_block_sizes(&ha, &hb), |v| tv::rel_name(v).to_string()),
        show(|| tv::FuzzyHash::is_block_sizes_near(&ha, &hb), |v| b(*v).to_string()),
        show(|| tv::FuzzyHash::is_block_sizes_near_eq(&ha, &hb), |v| b(*v).to_string()),
        show(|| tv::FuzzyHash::is_block_sizes_near_lt(&ha, &hb), |v| b(*v).to_string()),
        show(|| tv::FuzzyHash::is_block_sizes_near_gt(&ha, &hb), |v| b(*v).to_string()),
        show(|| ha.cmp_by_block_size(&hb), |v| format!("{:?}", v))));
    line.push_str(&format!(" arr1={} arr2={} as_ref={} default={}",
        show(|| ha.block_hash_1_as_array().to_vec(), |v| syms(v)),
        show(|| ha.block_hash_2_as_array().to_vec(), |v| syms(v)),
        show(|| tv::fh_fields(tv::fh_as_ref(&ha)), fields),
        show(|| tv::fh_fields(&tv::fh_default()), fields)));
}

fn easy_case(rng: &mut Rng, line: &mut String) {
    // two texts; mostly valid, related in the second one
    let t1 = gen_text(rng, 64, 64);
    let t2 = if rng.chance(1, 2) {
        // a relative: same text with a few characters changed inside the block hashes
        let mut t = t1.clone();
        for _ in 0..rng.range(0, 3) {
            if t.len() > 12 {
                let i = rng.range(10, t.len() as u64 - 1) as usize;
                if t[i] != b':' && t[i] != b',' {
                    t[i] = B64[rng.below(64) as usize];
                }
            }
        }
        t
    } else {
        gen_text(rng, 64, 64)
    };
    line.push_str(&format!(" easy {} {}", render_text(&t1), render_text(&t2)));
    let (s1, s2) = match (core::str::from_utf8(&t1), core::str::from_utf8(&t2)) {
        (Ok(a), Ok(b)) => (a, b),
        _ => {
            line.push_str(" notutf8");
            return;
        }
    };
    line.push_str(&format!(" compare={}", show(|| tv::easy_compare(s1, s2), |r| match r {
        Ok(s) => format!("Ok({})", s),
        Err(e) => format!("Err({})", tv::either_render(e)),
    })));
    // the single-hash error accessors through the trait
    line.push_str(&format!(" parse1={}", show(|| tv::parse_err_info(s1), |s| s.clone())));
}

pub fn tv_run(seed: u64, cases: u64, out: &mut Out) {
    out.line(&format!("# transval misc seed={} cases={}", seed, cases));
    for case in 0..cases {
        let mut rng = Rng::for_case(seed, case);
        let mut line = format!("case={}", case);
        match case % 4 {
            0 => scalar_case(&mut rng, &mut line),
            1 => object_case(&mut rng, &mut line),
            _ => easy_case(&mut rng, &mut line),
        }
        out.line(&line);
    }
}
