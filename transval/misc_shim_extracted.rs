// names of unit `misc` items as the driver sees them (extracted side)
pub use crate::internals::compare::FuzzyHashCompareTarget;
pub use crate::internals::compare_easy::{ParseErrorEither, ParseErrorSide};
pub use crate::internals::hash::FuzzyHashData;
pub use crate::internals::hash::block::BlockSizeRelation;
pub use crate::internals::hash::block::block_size::{from_log, is_near, log_from_valid};
use crate::internals::hash::block::block_size;
use crate::internals::hash::parser_state::{ParseError, ParseErrorInfo};
use crate::tv_driver::HashFields;

pub type FuzzyHash = FuzzyHashData<64, 32, true>;

pub fn cmp_logs(l: u8, r: u8) -> core::cmp::Ordering { block_size::cmp(l, r) }
pub fn rel_is_near(l: u8, r: u8) -> bool { block_size::compare_sizes(l, r).is_near() }
pub fn rel_name(r: &BlockSizeRelation) -> &'static str {
    match r {
        BlockSizeRelation::NearLt => "NearLt",
        BlockSizeRelation::NearEq => "NearEq",
        BlockSizeRelation::NearGt => "NearGt",
        BlockSizeRelation::Far => "Far",
    }
}
pub fn raw_score_by_edit_distance(a: u8, b: u8, d: u32) -> u32 { FuzzyHashCompareTarget::raw_score_by_edit_distance(a, b, d) }
pub fn score_cap_on_block_hash_comparison(l: u8, a: u8, b: u8) -> u32 { FuzzyHashCompareTarget::score_cap_on_block_hash_comparison(l, a, b) }

// fields are pub in the unit; `impl AsRef` / `impl Default` are emitted as_inherent as_ref_impl / default_
pub fn fh_fields(h: &FuzzyHash) -> HashFields {
    HashFields { log: h.log_blocksize, bh1: h.blockhash1.to_vec(), len1: h.len_blockhash1 as usize,
                 bh2: h.blockhash2.to_vec(), len2: h.len_blockhash2 as usize }
}
pub fn fh_as_ref(h: &FuzzyHash) -> &FuzzyHash { h.as_ref_impl() }
pub fn fh_default() -> FuzzyHash { FuzzyHash::default_() }

pub fn easy_compare(a: &str, b: &str) -> Result<u32, ParseErrorEither> { crate::internals::compare_easy::compare(a, b) }
pub fn either_render(e: &ParseErrorEither) -> String {
    format!("{:?},{:?},{:?},{}", e.side(), e.kind(), e.origin(), e.offset())
}
pub fn parse_err_info(s: &str) -> String {
    match FuzzyHashData::<64, 64, true>::from_str_impl(s) {
        Ok(_) => String::from("ok"),
        Err(e) => { let e: ParseError = e; format!("{:?},{:?},{}", e.kind(), e.origin(), e.offset()) }
    }
}
