// names of the real crate's items as the driver sees them (real side)
pub use ssdeep::{BlockSizeRelation, FuzzyHash, FuzzyHashCompareTarget, FuzzyHashData, ParseErrorEither, ParseErrorSide};
pub use ssdeep::block_size::{from_log, is_near, log_from_valid};
use ssdeep::{ParseError, ParseErrorInfo};
use crate::tv_driver::HashFields;

pub fn cmp_logs(l: u8, r: u8) -> core::cmp::Ordering { ssdeep::block_size::cmp(l, r) }
pub fn rel_is_near(l: u8, r: u8) -> bool { ssdeep::block_size::compare_sizes(l, r).is_near() }
pub fn rel_name(r: &BlockSizeRelation) -> &'static str {
    match r {
        BlockSizeRelation::NearLt => "NearLt",
        BlockSizeRelation::NearEq => "NearEq",
        BlockSizeRelation::NearGt => "NearGt",
        BlockSizeRelation::Far => "Far",
    }
}
pub fn raw_score_by_edit_distance(a: u8, b: u8, d: u32) -> u32 { FuzzyHashCompareTarget::raw_score_by_edit_distance(a, b, d) }
pub fn score_cap_on_block_hash_comparison(l: u8, a: u8, b: u8) -> u32 { FuzzyHashCompareTarget::score_cap_on_block_hash_comparison(l, a, b) }

pub fn fh_fields(h: &FuzzyHash) -> HashFields {
    HashFields { log: h.log_block_size(), bh1: h.block_hash_1_as_array().to_vec(), len1: h.block_hash_1_len(),
                 bh2: h.block_hash_2_as_array().to_vec(), len2: h.block_hash_2_len() }
}
pub fn fh_as_ref(h: &FuzzyHash) -> &FuzzyHash { AsRef::<FuzzyHash>::as_ref(h) }
pub fn fh_default() -> FuzzyHash { <FuzzyHash as Default>::default() }

pub fn easy_compare(a: &str, b: &str) -> Result<u32, ParseErrorEither> { ssdeep::compare(a, b) }
pub fn either_render(e: &ParseErrorEither) -> String {
    format!("{:?},{:?},{:?},{}", e.side(), e.kind(), e.origin(), e.offset())
}
pub fn parse_err_info(s: &str) -> String {
    match <ssdeep::LongFuzzyHash as core::str::FromStr>::from_str(s) {
        Ok(_) => String::from("ok"),
        Err(e) => { let e: ParseError = e; format!("{:?},{:?},{}", e.kind(), e.origin(), e.offset()) }
    }
}
