// transval/parser_driver.rs -- translation-validation driver for units `parser` and `parser_strict` (the latter extracted
// and built with `--features strict-parser`).
//
// Shared verbatim by both sides; names come from `mod tv` (parser_shim_extracted.rs / parser_shim_real.rs).
//
// Covered, for FuzzyHash, RawFuzzyHash, LongFuzzyHash, LongRawFuzzyHash:
//   from_bytes, from_bytes_with_last_index (index pre-set to a sentinel; shown afterwards), FromStr::from_str;
//   result = the object's fields (all bytes of both arrays) or ParseError's kind / origin / offset.
//   Underneath: from_bytes_with_last_index_internal (typed no-op callback substitution),
//   algorithms::parse_block_size_from_bytes (R6, `&mut &[u8]` substitution, typed `and_then` closure),
//   algorithms::parse_block_hash_from_bytes (R4 `break value`, R5 `.iter().copied()` + `next()`; with strict-parser also
//   R5'/R5'' `.take(N)` / look-ahead), base64::base64_index, block_size::from_log_internal, normalisation while parsing.
// STUBBED (not under test; see STUBS in tools/transval.py): block_size::is_valid and block_size::log_from_valid_internal are
//   `external_body` in the unit (body unimplemented!()); the harness substitutes reference bodies in its COPY of the unit so
//   that the parser can run.  Their contracts are discharged by Kani harnesses on the real functions.
// Inputs: texts generated from the grammar `<block size>:<block hash 1>:<block hash 2>[,<file name>]` with valid and
//   invalid block sizes (not 3*2^k, zero, leading zero, empty, 2^32 and beyond, non-digits), block hashes with runs
//   (1..12 equal characters), lengths around and beyond the capacities 64 / 32 (before and after normalisation),
//   non-alphabet bytes, missing / extra separators, NUL, non-UTF-8 bytes, and byte-level mutations of valid texts.
//
// (the text generator `gen_text` / `render_text` lives in common.rs: it is shared with the dual-hash parser driver)
//
// One transcript line per case.

use tv::TvParse;

fn res(r: &Result<HashFields, tv::ParseError>) -> String {
    match r {
        Ok(f) => format!("Ok({})", fields(f)),
        Err(e) => format!("Err({},{},{})", tv::err_kind(e), tv::err_origin(e), tv::err_offset(e)),
    }
}

fn one_type<T: TvParse>(name: &str, t: &[u8], line: &mut String) {
    let a = show(|| T::tv_from_bytes(t), res);
    let mut idx: usize = 0x5a5a;
    let b = guard(|| T::tv_from_bytes_with_last_index(t, &mut idx));
    let b = match &b {
        Some(r) => format!("{}@{}", res(r), idx),
        None => format!("PANIC@{}", idx),
    };
    let c = match core::str::from_utf8(t) {
        Ok(s) => show(|| T::tv_from_str(s), res),
        Err(_) => String::from("-"),
    };
    // the three entry points mostly agree: print the first in full, the others only when they differ from it
    line.push_str(&format!(" {}:{}", name, a));
    let a_idx = format!("{}@", a);
    if b.starts_with(&a_idx) {
        line.push_str(&format!(" li=same{}", &b[a.len()..]));
    } else {
        line.push_str(&format!(" li={}", b));
    }
    if c == a {
        line.push_str(" str=same");
    } else {
        line.push_str(&format!(" str={}", c));
    }
}

pub fn tv_run(seed: u64, cases: u64, out: &mut Out) {
    out.line(&format!("# transval parser seed={} cases={}", seed, cases));
    for case in 0..cases {
        let mut rng = Rng::for_case(seed, case);
        let long = rng.chance(1, 2);
        let t = gen_text(&mut rng, 64, if long { 64 } else { 32 });
        let mut line = format!("case={} len={} {}", case, t.len(), render_text(&t));
        one_type::<tv::FuzzyHash>("F", &t, &mut line);
        one_type::<tv::RawFuzzyHash>("R", &t, &mut line);
        one_type::<tv::LongFuzzyHash>("LF", &t, &mut line);
        one_type::<tv::LongRawFuzzyHash>("LR", &t, &mut line);
        out.line(&line);
    }
}
