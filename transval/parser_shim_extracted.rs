// names of unit `parser` / `parser_strict` items as the driver sees them (extracted side)
pub use crate::internals::hash::FuzzyHashData;
pub use crate::internals::hash::parser_state::ParseError;
use crate::tv_driver::HashFields;

pub type FuzzyHash = FuzzyHashData<64, 32, true>;
pub type RawFuzzyHash = FuzzyHashData<64, 32, false>;
pub type LongFuzzyHash = FuzzyHashData<64, 64, true>;
pub type LongRawFuzzyHash = FuzzyHashData<64, 64, false>;

// ParseError is a tuple struct with pub fields in the unit; the enums derive Debug on both sides
pub fn err_kind(e: &ParseError) -> String { format!("{:?}", e.0) }
pub fn err_origin(e: &ParseError) -> String { format!("{:?}", e.1) }
pub fn err_offset(e: &ParseError) -> usize { e.2 }

pub trait TvParse: Sized {
    fn tv_from_bytes(t: &[u8]) -> Result<HashFields, ParseError>;
    fn tv_from_bytes_with_last_index(t: &[u8], index: &mut usize) -> Result<HashFields, ParseError>;
    fn tv_from_str(s: &str) -> Result<HashFields, ParseError>;
}
macro_rules! tv_parse {
    ($ty:ty) => {
        impl TvParse for $ty {
            fn tv_from_bytes(t: &[u8]) -> Result<HashFields, ParseError> { <$ty>::from_bytes(t).map(|h| f(&h)) }
            fn tv_from_bytes_with_last_index(t: &[u8], index: &mut usize) -> Result<HashFields, ParseError> {
                <$ty>::from_bytes_with_last_index(t, index).map(|h| f(&h))
            }
            // `impl FromStr` is emitted as_inherent from_str_impl
            fn tv_from_str(s: &str) -> Result<HashFields, ParseError> { <$ty>::from_str_impl(s).map(|h| f(&h)) }
        }
    };
}
// fields are pub in the unit
fn f<const S1: usize, const S2: usize, const N: bool>(h: &FuzzyHashData<S1, S2, N>) -> HashFields
where
    crate::internals::hash::block::BlockHashSize<S1>: crate::internals::hash::block::ConstrainedBlockHashSize,
    crate::internals::hash::block::BlockHashSize<S2>: crate::internals::hash::block::ConstrainedBlockHashSize,
    crate::internals::hash::block::BlockHashSizes<S1, S2>: crate::internals::hash::block::ConstrainedBlockHashSizes,
{
    HashFields { log: h.log_blocksize, bh1: h.blockhash1.to_vec(), len1: h.len_blockhash1 as usize,
                 bh2: h.blockhash2.to_vec(), len2: h.len_blockhash2 as usize }
}
tv_parse!(FuzzyHash);
tv_parse!(RawFuzzyHash);
tv_parse!(LongFuzzyHash);
tv_parse!(LongRawFuzzyHash);
