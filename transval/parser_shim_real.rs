// names of the real crate's items as the driver sees them (real side)
pub use ssdeep::{FuzzyHash, FuzzyHashData, LongFuzzyHash, LongRawFuzzyHash, ParseError, RawFuzzyHash};
use ssdeep::ParseErrorInfo;
use crate::tv_driver::HashFields;

pub fn err_kind(e: &ParseError) -> String { format!("{:?}", e.kind()) }
pub fn err_origin(e: &ParseError) -> String { format!("{:?}", e.origin()) }
pub fn err_offset(e: &ParseError) -> usize { e.offset() }

pub trait TvParse: Sized {
    fn tv_from_bytes(t: &[u8]) -> Result<HashFields, ParseError>;
    fn tv_from_bytes_with_last_index(t: &[u8], index: &mut usize) -> Result<HashFields, ParseError>;
    fn tv_from_str(s: &str) -> Result<HashFields, ParseError>;
}
macro_rules! tv_parse {
    ($ty:ty) => {
        impl TvParse for $ty {
            fn tv_from_bytes(t: &[u8]) -> Result<HashFields, ParseError> { <$ty>::from_bytes(t).map(|h| f(&h)) }
            fn tv_from_bytes_with_last_index(t: &[u8], index: &mut usize) -> Result<HashFields, ParseError> {
                <$ty>::from_bytes_with_last_index(t, index).map(|h| f(&h))
            }
            fn tv_from_str(s: &str) -> Result<HashFields, ParseError> { <$ty as core::str::FromStr>::from_str(s).map(|h| f(&h)) }
        }
    };
}
// public accessors
fn f<const S1: usize, const S2: usize, const N: bool>(h: &FuzzyHashData<S1, S2, N>) -> HashFields
where
    ssdeep::constraints::BlockHashSize<S1>: ssdeep::constraints::ConstrainedBlockHashSize,
    ssdeep::constraints::BlockHashSize<S2>: ssdeep::constraints::ConstrainedBlockHashSize,
    ssdeep::constraints::BlockHashSizes<S1, S2>: ssdeep::constraints::ConstrainedBlockHashSizes,
{
    HashFields { log: h.log_block_size(), bh1: h.block_hash_1_as_array().to_vec(), len1: h.block_hash_1_len(),
                 bh2: h.block_hash_2_as_array().to_vec(), len2: h.block_hash_2_len() }
}
tv_parse!(FuzzyHash);
tv_parse!(RawFuzzyHash);
tv_parse!(LongFuzzyHash);
tv_parse!(LongRawFuzzyHash);
