// transval/position_array_driver.rs -- translation-validation driver for unit `position_array`.
//
// Shared verbatim by both sides; names come from `mod tv` (position_array_shim_extracted.rs / position_array_shim_real.rs).
//
// Covered:
//   BlockHashPositionArray::{new, default, clear, init_from} on REUSED objects (valid strings, symbols >= 64 and
//   over-long strings -> the crate's assert!s, rendered PANIC);
//   trait BlockHashPositionArrayData::{representation, len, is_empty, is_valid, is_valid_and_normalized} on the crate's
//   object AND on a driver-side implementor `tv::RawPA` carrying an ARBITRARY representation/length (bit flips of valid
//   ones, random words, lengths up to 255) -- rule R8 rewrites the `.iter().all(|&pos| {..mutates total..})` closure;
//   trait BlockHashPositionArrayImpl::{is_equiv, has_common_substring, edit_distance, score_strings_raw, score_strings}
//   (the checked public wrappers; they reach every `*_internal` default method of BlockHashPositionArrayImplInternal,
//   raw_score_by_edit_distance_internal, score_cap_on_block_hash_comparison_internal, utils::u64_lsb_ones) with
//   in-domain and out-of-domain arguments (invalid object, symbol >= 64, other longer than 64, log block size 32..);
//   block_hash_position_array_element::{has_sequences, has_sequences_const::<0|1|3|4|5|64|65>}.
// Not reachable on the real side (crate-private), hence not called directly:
//   BlockHashPositionArrayImplInternal::*_internal, BlockHashPositionArrayImplMutInternal::{clear_representation_only,
//   clear, set_len_internal, init_from_partial}, BlockHashPositionArrayImplMut::init_from, BlockHashPositionArrayRef /
//   MutRef, FuzzyHashCompareTarget::{raw_score_by_edit_distance_internal, score_cap_on_block_hash_comparison_internal}
//   -- all of them run underneath the calls above.
//
// One transcript line per case.

use tv::{BlockHashPositionArrayData, BlockHashPositionArrayImpl};

fn rep_digest(rep: &[u64; 64]) -> String {
    let mut b = Vec::with_capacity(512);
    for w in rep.iter() {
        b.extend_from_slice(&w.to_le_bytes());
    }
    digest(&b)
}

/// random symbol string; `kind` decides the shape
fn gen_syms(rng: &mut Rng, maxlen: usize) -> Vec<u8> {
    let n = match rng.below(12) {
        0 => 0,
        1 => maxlen,
        2 => rng.range(0, 7) as usize,
        3 => rng.range(6, 9) as usize,
        _ => rng.range(0, maxlen as u64) as usize,
    };
    let alpha: u64 = match rng.below(5) {
        0 => 2,
        1 => 4,
        2 => 8,
        _ => 64,
    };
    let runny = rng.chance(1, 3);
    let maxrun = if rng.chance(1, 4) { 6 } else { 3 }; // mostly normalized (runs <= 3)
    let mut v: Vec<u8> = Vec::with_capacity(n);
    while v.len() < n {
        let mut c = rng.below(alpha) as u8;
        if maxrun == 3 && v.last() == Some(&c) {
            c = (c + 1) % (alpha as u8); // do not extend the previous run by accident
        }
        let r = if runny { rng.range(1, maxrun) as usize } else { 1 };
        for _ in 0..r {
            if v.len() < n {
                v.push(c);
            }
        }
    }
    v
}

/// a relative of `s`: copy with edits, a shifted window, or something unrelated
fn gen_other(rng: &mut Rng, s: &[u8], maxlen: usize) -> Vec<u8> {
    match rng.below(12) {
        0 => s.to_vec(),
        1..=4 => {
            // a few point edits
            let mut v = s.to_vec();
            let k = rng.range(0, 4);
            for _ in 0..k {
                match rng.below(3) {
                    0 if !v.is_empty() => {
                        let i = rng.below(v.len() as u64) as usize;
                        v[i] = rng.below(64) as u8;
                    }
                    1 if !v.is_empty() => {
                        let i = rng.below(v.len() as u64) as usize;
                        v.remove(i);
                    }
                    _ => {
                        if v.len() < maxlen {
                            let i = rng.range(0, v.len() as u64) as usize;
                            v.insert(i, rng.below(64) as u8);
                        }
                    }
                }
            }
            v
        }
        5..=8 => {
            // shares one window of 5..12 symbols with s, rest random
            let mut v = gen_syms(rng, maxlen);
            if s.len() >= 5 {
                let w = rng.range(5, 12.min(s.len() as u64)) as usize;
                let a = rng.range(0, (s.len() - w) as u64) as usize;
                if v.len() < w {
                    v.resize(w, 0);
                }
                let b = rng.range(0, (v.len() - w) as u64) as usize;
                v[b..b + w].copy_from_slice(&s[a..a + w]);
            }
            v
        }
        9 => {
            // rotation
            let mut v = s.to_vec();
            if !v.is_empty() {
                let k = rng.below(v.len() as u64) as usize;
                v.rotate_left(k);
            }
            v
        }
        _ => gen_syms(rng, maxlen),
    }
}

fn spoil(rng: &mut Rng, v: &mut Vec<u8>) -> &'static str {
    // make the argument leave the documented domain now and then
    match rng.below(40) {
        0 if !v.is_empty() => {
            let i = rng.below(v.len() as u64) as usize;
            v[i] = 64 + (rng.byte() % 192);
            "badsym"
        }
        1 => {
            let extra = rng.range(1, 40) as usize;
            let n = 64 + extra;
            while v.len() < n {
                v.push(rng.below(64) as u8);
            }
            "long"
        }
        _ => "",
    }
}

fn observe<T: BlockHashPositionArrayData + BlockHashPositionArrayImpl>(p: &T, me: &[u8], other: &[u8], log: u8) -> String {
    let d = show(|| rep_digest(p.representation()), |s| s.clone());
    let l = show(|| p.len(), |v| v.to_string());
    let e = show(|| p.is_empty(), |v| (*v as u8).to_string());
    let v = show(|| p.is_valid(), |v| (*v as u8).to_string());
    let n = show(|| p.is_valid_and_normalized(), |v| (*v as u8).to_string());
    let q0 = show(|| p.is_equiv(me), |v| (*v as u8).to_string());
    let q = show(|| p.is_equiv(other), |v| (*v as u8).to_string());
    let c = show(|| p.has_common_substring(other), |v| (*v as u8).to_string());
    let c0 = show(|| p.has_common_substring(me), |v| (*v as u8).to_string());
    let ed = show(|| p.edit_distance(other), |v| v.to_string());
    let sr = show(|| p.score_strings_raw(other), |v| v.to_string());
    let ss = show(|| p.score_strings(other, log), |v| v.to_string());
    format!("rep={} len={} empty={} valid={} norm={} eqself={} eq={} cs={} csself={} ed={} raw={} score@{}={}",
            d, l, e, v, n, q0, q, c, c0, ed, sr, log, ss)
}

fn pa_case(seed: u64, case: u64, pa: &mut tv::BlockHashPositionArray, out: &mut Out) {
    let mut rng = Rng::for_case(seed, case);
    let mut s = gen_syms(&mut rng, 64);
    let mut o = gen_other(&mut rng, &s, 64);
    let sp_s = spoil(&mut rng, &mut s);
    let sp_o = spoil(&mut rng, &mut o);
    let log = if rng.chance(1, 25) { rng.range(32, 255) as u8 } else { rng.range(0, 31) as u8 };
    let mut line = format!("case={} pa s={}{} o={}{}", case, syms(&s), sp_s, syms(&o), sp_o);
    match rng.below(8) {
        0 => {
            *pa = tv::BlockHashPositionArray::new();
            line.push_str(" new");
        }
        1 => {
            *pa = tv::default_pa();
            line.push_str(" default");
        }
        2 => {
            let r = guard(|| pa.clear());
            line.push_str(if r.is_some() { " clear" } else { " clear=PANIC" });
            line.push_str(&format!(" [{}]", observe(pa, &[], &o, log)));
        }
        _ => line.push_str(" reuse"),
    }
    let r = guard(|| pa.init_from(&s));
    if r.is_none() {
        // the object may be half-written: both sides must agree on that too
        line.push_str(&format!(" init=PANIC after[{}]", observe(pa, &[], &o, log)));
        *pa = tv::BlockHashPositionArray::new();
        out.line(&line);
        return;
    }
    line.push_str(&format!(" init {}", observe(pa, &s, &o, log)));
    if rng.chance(1, 3) {
        // long `other` is in the domain of has_common_substring only
        let mut long = o.clone();
        let n = rng.range(65, 130) as usize;
        while long.len() < n {
            let c = rng.below(64) as u8;
            long.push(c);
        }
        if s.len() >= 7 && rng.chance(1, 2) {
            let a = rng.range(0, (s.len() - 7) as u64) as usize;
            let b = rng.range(0, (long.len() - 7) as u64) as usize;
            long[b..b + 7].copy_from_slice(&s[a..a + 7]);
        }
        line.push_str(&format!(" cslong{}={}", long.len(), show(|| pa.has_common_substring(&long), |v| (*v as u8).to_string())));
    }
    out.line(&line);
}

fn raw_case(seed: u64, case: u64, out: &mut Out) {
    let mut rng = Rng::for_case(seed, case);
    let s = gen_syms(&mut rng, 64);
    let o = gen_other(&mut rng, &s, 64);
    let log = rng.range(0, 31) as u8;
    // start from the valid representation of s (computed here, independently: bit i of rep[c] <=> s[i] == c)
    let mut rep = [0u64; 64];
    for (i, &c) in s.iter().enumerate() {
        rep[(c & 63) as usize] |= 1u64 << i;
    }
    let mut len = s.len() as u8;
    let what = match rng.below(10) {
        0 => "valid",
        1 => {
            let c = rng.below(64) as usize;
            let b = rng.below(64);
            rep[c] ^= 1u64 << b;
            "flip1"
        }
        2 => {
            for _ in 0..rng.range(2, 5) {
                let c = rng.below(64) as usize;
                let b = rng.below(64);
                rep[c] ^= 1u64 << b;
            }
            "flipn"
        }
        3 => {
            len = len.wrapping_add(rng.range(1, 3) as u8);
            "lenplus"
        }
        4 => {
            len = len.wrapping_sub(rng.range(1, 3) as u8);
            "lenminus"
        }
        5 => {
            len = rng.range(65, 255) as u8;
            "lenhuge"
        }
        6 => {
            for w in rep.iter_mut() {
                *w = rng.next();
            }
            "random"
        }
        7 => {
            // two symbols claim the same position
            if len > 0 {
                let b = rng.below(len as u64);
                let c = rng.below(64) as usize;
                rep[c] |= 1u64 << b;
            }
            "double"
        }
        8 => {
            // a position inside the string is unoccupied
            if len > 0 {
                let b = rng.below(len as u64);
                for w in rep.iter_mut() {
                    *w &= !(1u64 << b);
                }
            }
            "hole"
        }
        _ => {
            // everything at one symbol: the longest possible run
            rep = [0u64; 64];
            let c = rng.below(64) as usize;
            len = rng.range(0, 64) as u8;
            rep[c] = if len == 64 { u64::MAX } else { (1u64 << len) - 1 };
            "onesym"
        }
    };
    let p = tv::RawPA { rep, len };
    out.line(&format!("case={} raw {} s={} o={} {}", case, what, syms(&s), syms(&o), observe(&p, &s, &o, log)));
}

fn seq_case(seed: u64, case: u64, out: &mut Out) {
    let mut rng = Rng::for_case(seed, case);
    let mut line = format!("case={} seq", case);
    for _ in 0..6 {
        let x: u64 = match rng.below(6) {
            0 => rng.next(),
            1 => rng.next() & rng.next(),
            2 => rng.next() | rng.next() | rng.next(),
            3 => {
                // one run of a chosen length somewhere
                let l = rng.range(0, 64);
                let run = if l == 64 { u64::MAX } else { (1u64 << l) - 1 };
                let sh = if l == 64 { 0 } else { rng.range(0, 64 - l) };
                run << sh
            }
            4 => {
                let l = rng.range(1, 8);
                let run = (1u64 << l) - 1;
                (run << rng.range(0, 56)) | (run << rng.range(0, 56))
            }
            _ => [0u64, u64::MAX, 1, 1 << 63, 0x7777_7777_7777_7777, 0xFFFF_FFFF_0000_0000][rng.below(6) as usize],
        };
        let len = match rng.below(4) {
            0 => rng.range(0, 8) as u32,
            1 => rng.range(60, 70) as u32,
            2 => rng.next() as u32,
            _ => rng.range(0, 64) as u32,
        };
        line.push_str(&format!(" {:016x}/{}={}", x, len, show(|| tv::has_sequences(x, len), |v| (*v as u8).to_string())));
        line.push_str(&format!(" c[{}{}{}{}{}{}{}]",
            show(|| tv::has_sequences_const::<0>(x), |v| (*v as u8).to_string()),
            show(|| tv::has_sequences_const::<1>(x), |v| (*v as u8).to_string()),
            show(|| tv::has_sequences_const::<3>(x), |v| (*v as u8).to_string()),
            show(|| tv::has_sequences_const::<4>(x), |v| (*v as u8).to_string()),
            show(|| tv::has_sequences_const::<5>(x), |v| (*v as u8).to_string()),
            show(|| tv::has_sequences_const::<64>(x), |v| (*v as u8).to_string()),
            show(|| tv::has_sequences_const::<65>(x), |v| (*v as u8).to_string())));
    }
    out.line(&line);
}

pub fn tv_run(seed: u64, cases: u64, out: &mut Out) {
    out.line(&format!("# transval position_array seed={} cases={}", seed, cases));
    let mut pa = tv::BlockHashPositionArray::new();
    out.line(&format!("fresh {}", observe(&pa, &[], &[1, 2, 3], 0)));
    for case in 0..cases {
        match case % 8 {
            0..=4 => pa_case(seed, case, &mut pa, out),
            5 | 6 => raw_case(seed, case, out),
            _ => seq_case(seed, case, out),
        }
    }
}
