// names of unit `position_array` items as the driver sees them (extracted side)
#[allow(unused_imports)] use vstd::prelude::*;
pub use crate::internals::compare::position_array::{
    BlockHashPositionArray, BlockHashPositionArrayData, BlockHashPositionArrayImpl,
};
pub use crate::internals::compare::position_array::block_hash_position_array_element::{
    has_sequences, has_sequences_const,
};

// `impl Default` is emitted `as_inherent default_`
pub fn default_pa() -> BlockHashPositionArray { BlockHashPositionArray::default_() }

// A driver-side implementor of the data trait with an arbitrary representation.  In the unit the trait carries the two
// ghost accessors `rep_spec` / `len_spec` (contract injection), so the impl has to live in a verus! block here.
verus! {
pub struct RawPA {
    pub rep: [u64; 64],
    pub len: u8,
}
impl BlockHashPositionArrayData for RawPA {
    open spec fn rep_spec(&self) -> [u64; 64] { self.rep }
    open spec fn len_spec(&self) -> u8 { self.len }
    fn representation(&self) -> (r: &[u64; 64]) { &self.rep }
    fn len(&self) -> (r: u8) { self.len }
}
}
