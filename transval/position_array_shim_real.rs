// names of the real crate's items as the driver sees them (real side)
pub use ssdeep::internal_comparison::{
    BlockHashPositionArray, BlockHashPositionArrayData, BlockHashPositionArrayImpl,
};
pub use ssdeep::internal_comparison::block_hash_position_array_element::{
    has_sequences, has_sequences_const,
};

pub fn default_pa() -> BlockHashPositionArray { <BlockHashPositionArray as Default>::default() }

// A driver-side implementor of the (public) data trait with an arbitrary representation.
pub struct RawPA {
    pub rep: [u64; 64],
    pub len: u8,
}
impl BlockHashPositionArrayData for RawPA {
    fn representation(&self) -> &[u64; 64] { &self.rep }
    fn len(&self) -> u8 { self.len }
}
