// transval/text_driver.rs -- translation-validation driver for units `text` and `text_unsafe` (the latter extracted and built
// with `--features unsafe`: `from_utf8_unchecked` instead of the checked conversions).
//
// Shared verbatim by both sides; names come from `mod tv` (text_shim_extracted.rs / text_shim_real.rs).
//
// Covered, for FuzzyHash, RawFuzzyHash, LongFuzzyHash, LongRawFuzzyHash (objects built by new_from_internals_near_raw):
//   to_string, From<hash> for String, Display::fmt through a real core::fmt::Formatter under twelve format specifications
//   (plain, precision 0/3/200, width 5/80/120 with left/right/centre alignment and fill, `#`), len_in_str,
//   store_into_bytes (exact-size buffer), MAX_LEN_IN_STR.
//   Underneath: algorithms::insert_block_hash_into_bytes (R6), base64 table, BLOCK_SIZES_STR (external_body const whose
//   initialiser is kept), the declared substitution of the crate-root MAX_LEN_IN_STR const.
// Skipped: Debug::fmt (rule R18 replaces the core::fmt builder chain by an assumed-total stub `verif_debug_finish`: its
//   OUTPUT does not exist on the extracted side, so there is nothing to compare); parsing (unit `parser`).
//
// One transcript line per case.

use tv::TvText;

/// Display through a real core::fmt::Formatter (so that width / precision / fill reach the code under test)
struct Shown<'a, T: TvText>(&'a T);
impl<T: TvText> core::fmt::Display for Shown<'_, T> {
    fn fmt(&self, f: &mut core::fmt::Formatter<'_>) -> core::fmt::Result {
        self.0.tv_fmt(f)
    }
}

fn gen_bh(rng: &mut Rng, cap: usize, norm: bool) -> Vec<u8> {
    let n = match rng.below(8) {
        0 => 0,
        1 => cap,
        _ => rng.range(0, cap as u64) as usize,
    };
    let maxrun = if norm { 3 } else { rng.range(1, 10) };
    let mut v: Vec<u8> = Vec::with_capacity(n);
    while v.len() < n {
        let mut c = rng.below(64) as u8;
        if v.last() == Some(&c) {
            c = (c + 1) % 64;
        }
        let r = rng.range(1, maxrun) as usize;
        for _ in 0..r {
            if v.len() < n {
                v.push(c);
            }
        }
    }
    v
}

fn one<T: TvText>(name: &str, norm: bool, c1: usize, c2: usize, rng: &mut Rng, line: &mut String) {
    let log = rng.range(0, 30) as u8;
    let s1 = gen_bh(rng, c1, norm);
    let s2 = gen_bh(rng, c2, norm);
    line.push_str(&format!(" {} {}:{}:{}", name, log, syms(&s1), syms(&s2)));
    let h = match guard(|| T::tv_new(log, &s1, &s2)) {
        Some(h) => h,
        None => {
            line.push_str(" => PANIC");
            return;
        }
    };
    line.push_str(&format!(" max={} lis={} to_string={} String::from={}", T::TV_MAX_LEN_IN_STR,
        show(|| h.tv_len_in_str(), |v| v.to_string()),
        show(|| h.tv_to_string(), |s| s.clone()),
        show(|| h.tv_string_from(), |s| s.clone())));
    let need = guard(|| h.tv_len_in_str()).unwrap_or(0);
    let mut buf = vec![b'.'; need];
    let r = show(|| h.tv_store(&mut buf), |r| format!("{:?}", r));
    line.push_str(&format!(" store={} {}", r, String::from_utf8_lossy(&buf)));
    macro_rules! spec {
        ($label:expr, $($fmt:tt)*) => {
            line.push_str(&format!(" {}=[{}]", $label, show(|| format!($($fmt)*, Shown(&h)), |s| s.clone())));
        };
    }
    spec!("{}", "{}");
    spec!("{:.0}", "{:.0}");
    spec!("{:.3}", "{:.3}");
    spec!("{:.200}", "{:.200}");
    spec!("{:5}", "{:5}");
    spec!("{:>80}", "{:>80}");
    spec!("{:<80}", "{:<80}");
    spec!("{:^80}", "{:^80}");
    spec!("{:*>120}", "{:*>120}");
    spec!("{:#}", "{:#}");
    spec!("{:-^9.4}", "{:-^9.4}");
    spec!("{:08}", "{:08}");
}

pub fn tv_run(seed: u64, cases: u64, out: &mut Out) {
    out.line(&format!("# transval text seed={} cases={}", seed, cases));
    for case in 0..cases {
        let mut rng = Rng::for_case(seed, case);
        let mut line = format!("case={}", case);
        match case % 4 {
            0 => one::<tv::FuzzyHash>("F", true, 64, 32, &mut rng, &mut line),
            1 => one::<tv::RawFuzzyHash>("R", false, 64, 32, &mut rng, &mut line),
            2 => one::<tv::LongFuzzyHash>("LF", true, 64, 64, &mut rng, &mut line),
            _ => one::<tv::LongRawFuzzyHash>("LR", false, 64, 64, &mut rng, &mut line),
        }
        out.line(&line);
    }
}
