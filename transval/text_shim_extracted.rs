// names of unit `text` / `text_unsafe` items as the driver sees them (extracted side)
pub use crate::internals::hash::FuzzyHashData;

pub type FuzzyHash = FuzzyHashData<64, 32, true>;
pub type RawFuzzyHash = FuzzyHashData<64, 32, false>;
pub type LongFuzzyHash = FuzzyHashData<64, 64, true>;
pub type LongRawFuzzyHash = FuzzyHashData<64, 64, false>;

pub trait TvText: Sized {
    const TV_MAX_LEN_IN_STR: usize;
    fn tv_new(log: u8, s1: &[u8], s2: &[u8]) -> Self;
    fn tv_len_in_str(&self) -> usize;
    fn tv_to_string(&self) -> String;
    fn tv_string_from(&self) -> String;
    fn tv_store(&self, buf: &mut [u8]) -> Result<usize, &'static str>;
    fn tv_fmt(&self, f: &mut core::fmt::Formatter<'_>) -> core::fmt::Result;
}
macro_rules! tv_text {
    ($ty:ty) => {
        impl TvText for $ty {
            const TV_MAX_LEN_IN_STR: usize = <$ty>::MAX_LEN_IN_STR;
            fn tv_new(log: u8, s1: &[u8], s2: &[u8]) -> Self { <$ty>::new_from_internals_near_raw(log, s1, s2) }
            fn tv_len_in_str(&self) -> usize { self.len_in_str() }
            fn tv_to_string(&self) -> String { self.to_string() }
            // `impl From<FuzzyHashData> for String` is emitted `as_inherent free:string_from_hash`
            fn tv_string_from(&self) -> String { crate::internals::hash::string_from_hash(*self) }
            fn tv_store(&self, buf: &mut [u8]) -> Result<usize, &'static str> { self.store_into_bytes(buf).map_err(|_| "err") }
            // `impl Display` is emitted as_inherent fmt_display
            fn tv_fmt(&self, f: &mut core::fmt::Formatter<'_>) -> core::fmt::Result { self.fmt_display(f) }
        }
    };
}
tv_text!(FuzzyHash);
tv_text!(RawFuzzyHash);
tv_text!(LongFuzzyHash);
tv_text!(LongRawFuzzyHash);
