// names of the real crate's items as the driver sees them (real side)
pub use ssdeep::{FuzzyHash, FuzzyHashData, LongFuzzyHash, LongRawFuzzyHash, RawFuzzyHash};

pub trait TvText: Sized {
    const TV_MAX_LEN_IN_STR: usize;
    fn tv_new(log: u8, s1: &[u8], s2: &[u8]) -> Self;
    fn tv_len_in_str(&self) -> usize;
    fn tv_to_string(&self) -> String;
    fn tv_string_from(&self) -> String;
    fn tv_store(&self, buf: &mut [u8]) -> Result<usize, &'static str>;
    fn tv_fmt(&self, f: &mut core::fmt::Formatter<'_>) -> core::fmt::Result;
}
macro_rules! tv_text {
    ($ty:ty) => {
        impl TvText for $ty {
            const TV_MAX_LEN_IN_STR: usize = <$ty>::MAX_LEN_IN_STR;
            fn tv_new(log: u8, s1: &[u8], s2: &[u8]) -> Self { <$ty>::new_from_internals_near_raw(log, s1, s2) }
            fn tv_len_in_str(&self) -> usize { self.len_in_str() }
            // (the inherent method, not ToString::to_string)
            fn tv_to_string(&self) -> String { <$ty>::to_string(self) }
            fn tv_string_from(&self) -> String { String::from(*self) }
            fn tv_store(&self, buf: &mut [u8]) -> Result<usize, &'static str> { self.store_into_bytes(buf).map_err(|_| "err") }
            fn tv_fmt(&self, f: &mut core::fmt::Formatter<'_>) -> core::fmt::Result { core::fmt::Display::fmt(self, f) }
        }
    };
}
tv_text!(FuzzyHash);
tv_text!(RawFuzzyHash);
tv_text!(LongFuzzyHash);
tv_text!(LongRawFuzzyHash);
