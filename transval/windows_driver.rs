// transval/windows_driver.rs -- translation-validation driver for unit `windows`.
//
// Shared verbatim by both sides; names come from `mod tv` (windows_shim_extracted.rs / windows_shim_real.rs).
//
// Covered, on FuzzyHash (64,32) and LongFuzzyHash (64,64) objects built by new_from_internals_near_raw:
//   block_hash_1_numeric_windows, block_hash_2_numeric_windows, block_hash_1_index_windows, block_hash_2_index_windows
//   (-> NumericWindows::new (rule R15: enumerate/map/fold -> loop), IndexWindows::new),
//   Iterator::next of both iterator types (rule R16: split_first; `Option::map` substitution), Iterator::size_hint,
//   ExactSizeIterator::len, interleaved, including calls after exhaustion; every yielded value is printed.
//   Block hash lengths concentrate around the window size (0, 5, 6, 7, 8, capacity); log block sizes 0..30 (so that
//   block hash 2 is labelled 1..31).
//   Constants NumericWindows::{BITS, MASK} (extracted side: the mirrors axiom_windows_mask_bits / _mask declared in
//   windows.vc because this Verus build cannot refer to associated consts of lifetime-generic types).
// Not reachable on the real side (pub(crate)): NumericWindows::new / IndexWindows::new with arbitrary slices (so strings with
//   symbols >= 64 or longer than the capacity are never seen by the iterators); block_hash_N_windows (slice::windows
//   wrappers) are not part of the unit; IndexWindows::{BITS, MASK} are not kept in the unit.
//
// One transcript line per case.

use tv::TvWin;

fn gen_norm(rng: &mut Rng, cap: usize) -> Vec<u8> {
    let n = match rng.below(12) {
        0 => 0,
        1 => 5,
        2 => 6,
        3 => 7,
        4 => 8,
        5 => cap,
        6 => cap - 1,
        _ => rng.range(0, cap as u64) as usize,
    };
    let alpha: u64 = if rng.chance(1, 3) { 2 } else { 64 };
    let mut v: Vec<u8> = Vec::with_capacity(n);
    while v.len() < n {
        let mut c = rng.below(alpha) as u8;
        if v.last() == Some(&c) {
            c = (c + 1) % (alpha as u8);
        }
        let r = rng.range(1, 3) as usize;
        for _ in 0..r {
            if v.len() < n {
                v.push(if rng.chance(1, 50) { 63 } else { c });
            }
        }
    }
    // (a stray 63 may have lengthened a run: re-normalise by construction)
    let mut w: Vec<u8> = Vec::with_capacity(n);
    for &c in v.iter() {
        let k = w.len();
        if k >= 3 && w[k - 1] == c && w[k - 2] == c && w[k - 3] == c {
            continue;
        }
        w.push(c);
    }
    w
}

fn drain<I: TvWin>(mut it: I, rng: &mut Rng) -> String {
    let mut s = String::new();
    s.push_str(&format!("len={} hint={}", show(|| it.tv_len(), |v| v.to_string()),
                        show(|| it.tv_size_hint(), |v| format!("{:?}", v))));
    let mut after = 0;
    loop {
        let r = guard(|| it.tv_next());
        match r {
            None => {
                s.push_str(" PANIC");
                break;
            }
            Some(Some(x)) => s.push_str(&format!(" {:x}", x)),
            Some(None) => {
                s.push_str(" None");
                after += 1;
                if after >= 3 {
                    break;
                }
            }
        }
        if rng.chance(1, 4) {
            s.push_str(&format!("[len={} hint={}]", show(|| it.tv_len(), |v| v.to_string()),
                                show(|| it.tv_size_hint(), |v| format!("{:?}", v))));
        }
    }
    s
}

macro_rules! per_type {
    ($fname:ident, $ty:ty, $name:expr, $s1:expr, $s2:expr) => {
        fn $fname(rng: &mut Rng, line: &mut String) {
            let log = rng.range(0, 30) as u8;
            let s1 = gen_norm(rng, $s1);
            let s2 = gen_norm(rng, $s2);
            line.push_str(&format!(" {} log={} s1={} s2={}", $name, log, syms(&s1), syms(&s2)));
            let h = match guard(|| <$ty>::new_from_internals_near_raw(log, &s1, &s2)) {
                Some(h) => h,
                None => {
                    line.push_str(" => PANIC");
                    return;
                }
            };
            match guard(|| h.block_hash_1_numeric_windows()) {
                Some(it) => line.push_str(&format!(" n1:{}", drain(it, rng))),
                None => line.push_str(" n1:PANIC"),
            }
            match guard(|| h.block_hash_2_numeric_windows()) {
                Some(it) => line.push_str(&format!(" n2:{}", drain(it, rng))),
                None => line.push_str(" n2:PANIC"),
            }
            match guard(|| h.block_hash_1_index_windows()) {
                Some(it) => line.push_str(&format!(" i1:{}", drain(it, rng))),
                None => line.push_str(" i1:PANIC"),
            }
            match guard(|| h.block_hash_2_index_windows()) {
                Some(it) => line.push_str(&format!(" i2:{}", drain(it, rng))),
                None => line.push_str(" i2:PANIC"),
            }
        }
    };
}

per_type!(win_short, tv::FuzzyHash, "FuzzyHash", 64, 32);
per_type!(win_long, tv::LongFuzzyHash, "LongFuzzyHash", 64, 64);

pub fn tv_run(seed: u64, cases: u64, out: &mut Out) {
    out.line(&format!("# transval windows seed={} cases={} NumericWindows::BITS={} MASK={:x}", seed, cases, tv::NW_BITS, tv::NW_MASK));
    for case in 0..cases {
        let mut rng = Rng::for_case(seed, case);
        let mut line = format!("case={}", case);
        if case % 2 == 0 {
            win_short(&mut rng, &mut line);
        } else {
            win_long(&mut rng, &mut line);
        }
        out.line(&line);
    }
}
