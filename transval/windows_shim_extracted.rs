// names of unit `windows` items as the driver sees them (extracted side)
pub use crate::internals::hash::FuzzyHashData;
pub use crate::internals::hash::block::block_hash::{IndexWindows, NumericWindows};

pub type FuzzyHash = FuzzyHashData<64, 32, true>;
pub type LongFuzzyHash = FuzzyHashData<64, 64, true>;

// the unit replaces NumericWindows::{BITS, MASK} by the mirrors declared in windows.vc
pub const NW_BITS: u32 = crate::internals::hash::block::block_hash::axiom_windows_mask_bits;
pub const NW_MASK: u64 = crate::internals::hash::block::block_hash::axiom_windows_mask_mask;

// `impl Iterator` / `impl ExactSizeIterator` are emitted as_inherent next_impl / size_hint_impl / len_impl
pub trait TvWin {
    fn tv_next(&mut self) -> Option<u64>;
    fn tv_size_hint(&self) -> (usize, Option<usize>);
    fn tv_len(&self) -> usize;
}
impl TvWin for NumericWindows<'_> {
    fn tv_next(&mut self) -> Option<u64> { self.next_impl() }
    fn tv_size_hint(&self) -> (usize, Option<usize>) { self.size_hint_impl() }
    fn tv_len(&self) -> usize { self.len_impl() }
}
impl TvWin for IndexWindows<'_> {
    fn tv_next(&mut self) -> Option<u64> { self.next_impl() }
    fn tv_size_hint(&self) -> (usize, Option<usize>) { self.size_hint_impl() }
    fn tv_len(&self) -> usize { self.len_impl() }
}
