// names of the real crate's items as the driver sees them (real side)
pub use ssdeep::{FuzzyHash, LongFuzzyHash};
pub use ssdeep::block_hash::{IndexWindows, NumericWindows};

pub const NW_BITS: u32 = NumericWindows::BITS;
pub const NW_MASK: u64 = NumericWindows::MASK;

pub trait TvWin {
    fn tv_next(&mut self) -> Option<u64>;
    fn tv_size_hint(&self) -> (usize, Option<usize>);
    fn tv_len(&self) -> usize;
}
impl TvWin for NumericWindows<'_> {
    fn tv_next(&mut self) -> Option<u64> { Iterator::next(self) }
    fn tv_size_hint(&self) -> (usize, Option<usize>) { Iterator::size_hint(self) }
    fn tv_len(&self) -> usize { ExactSizeIterator::len(self) }
}
impl TvWin for IndexWindows<'_> {
    fn tv_next(&mut self) -> Option<u64> { Iterator::next(self) }
    fn tv_size_hint(&self) -> (usize, Option<usize>) { Iterator::size_hint(self) }
    fn tv_len(&self) -> usize { ExactSizeIterator::len(self) }
}
